"""Swarm generator of model programs (JSON ASTs).  Pure Python, no pyvsc import,
every decision drawn from the rng passed in.

Vocabulary
  field   {"n","k":"s","w","s":signed,"r":rand,"i":init}            scalar
          {"n","k":"e","en":enum,"r"}                                enum
          {"n","k":"l","w","s","r","rsz","sz"}                       scalar list
          {"n","k":"le","en","r","rsz","sz"}                         enum list
          {"n","k":"o","c":class,"r"}                                sub-object
          {"n","k":"lo","c":class,"r","sz"}                          object list
  expr    f(path) lit slit ulit en idx bin not in inrl inlist ps size sum product dynref
  stmt    expr if implies soft unique unique_vec foreach dist solve_order
  path    list of attribute names, ints, and loop markers {"d":depth,"o":offset,"it":0/1}

Ambiguity avoidance (DESIGN 3.1): every relational expression is generated in
mode 'U' (all leaves unsigned, literals non-negative) or 'S' (all leaves signed)
or as a direct field-to-field comparison; relational results are only combined
with & | ~; ~ only applies to 1-bit operands; / and % only in mode U with a
non-zero literal divisor; shifts only in mode U by literals < 8.
"""

REL = ("==", "!=", "<", "<=", ">", ">=")


def F(*p):
    return {"t": "f", "p": list(p)}


def LIT(v):
    return {"t": "lit", "v": v}


def BIN(op, l, r):
    return {"t": "bin", "op": op, "l": l, "r": r}


def EXPR(e):
    return {"t": "expr", "e": e}


class Gen(object):
    def __init__(self, rng, cfg=None):
        self.rng = rng
        c = {
            "widths": [1, 2, 3, 4],       # scalar width palette
            "signed": True,
            "enums": False,
            "lists": False,
            "subobj": False,
            "nonrand": True,
            "depth": 2,
            "stmts": ["expr", "expr", "expr", "if", "implies", "in", "unique"],
            "soft": False,
            "arith": ["+", "-", "*", "&", "|", "^"],
            "ps": True,
            "shifts": True,
            "divmod": True,
            "rls": False,
            "max_fields": 4,
            "min_fields": 2,
            "max_blocks": 2,
            "max_stmts": 4,
            "wide_lits": False,
        }
        if cfg:
            c.update(cfg)
        self.cfg = c

    # -------------------------------------------------------------- fields
    def scalar_field(self, name, rand=True, width=None, signed=None):
        w = width if width is not None else self.rng.choice(self.cfg["widths"])
        if signed is None:
            signed = self.cfg["signed"] and w >= 2 and self.rng.random() < 0.4
        f = {"n": name, "k": "s", "w": w, "s": bool(signed), "r": bool(rand), "i": 0}
        return f

    def in_range_value(self, f, enums=None):
        if f["k"] in ("e", "le"):
            return self.rng.choice([v for (_, v) in enums[f["en"]]["items"]])
        w, s = f["w"], f["s"]
        lo, hi = (-(1 << (w - 1)), (1 << (w - 1)) - 1) if s else (0, (1 << w) - 1)
        r = self.rng.random()
        if r < 0.15:
            return lo
        if r < 0.3:
            return hi
        if r < 0.4 and lo <= 0 <= hi:
            return 0
        return self.rng.randint(lo, hi)

    # ---------------------------------------------------------- expressions
    def literal_value(self, f, mode):
        """literal value near the range of scalar field def f"""
        w, s = f["w"], f["s"]
        if f["k"] in ("e", "le"):
            w, s = 4, False
        lo, hi = (-(1 << (w - 1)), (1 << (w - 1)) - 1) if s else (0, (1 << w) - 1)
        r = self.rng.random()
        if r < 0.1:
            v = lo
        elif r < 0.2:
            v = hi
        elif r < 0.27:
            v = hi + 1
        elif r < 0.32:
            v = lo - 1
        elif r < 0.37 and self.cfg["wide_lits"]:
            v = self.rng.choice([(1 << 31) - 1, (1 << 32) - 1, 1 << 16, 255, 256])
        else:
            v = self.rng.randint(lo, hi)
        if mode == "U" and v < 0:
            v = -v
        return v

    def literal_for(self, f, mode):
        """literal node: a plain Python int when it fits a signed 32-bit
        literal, else an explicit-width vsc.signed()/unsigned() literal"""
        v = self.literal_value(f, mode)
        if -(1 << 31) <= v <= (1 << 31) - 1:
            return LIT(v)
        if mode == "U":
            return {"t": "ulit", "v": v, "w": max(f.get("w", 32), v.bit_length())}
        return {"t": "slit", "v": v, "w": max(f.get("w", 32), v.bit_length() + 1)}

    def small_literal(self, f, mode):
        v = self.literal_value(f, mode)
        return max(-(1 << 31), min((1 << 31) - 1, v))

    def leaf(self, fields, mode, allow_lit=True):
        """int-valued leaf: field / literal / part-select"""
        cands = [f for f in fields
                 if (mode == "S" and f["s"]) or (mode == "U" and not f["s"])]
        r = self.rng.random()
        if cands and (r < 0.65 or not allow_lit):
            f = self.rng.choice(cands)
            if (self.cfg["ps"] and mode == "U" and f["k"] == "s" and f["w"] >= 2
                    and all(isinstance(x, str) for x in f["_p"])
                    and self.rng.random() < 0.15):
                hi = self.rng.randint(0, f["w"] - 1)
                lo = self.rng.randint(0, hi)
                return {"t": "ps", "p": f["_p"], "hi": hi, "lo": lo}
            return {"t": "f", "p": f["_p"]}
        ref = self.rng.choice(cands) if cands else {"k": "s", "w": 4, "s": mode == "S"}
        return self.literal_for(ref, mode)

    def int_expr(self, fields, mode, depth):
        if depth <= 0 or self.rng.random() < 0.45:
            return self.leaf(fields, mode)
        ops = list(self.cfg["arith"])
        if mode == "U":
            if self.cfg["shifts"]:
                ops += ["<<", ">>"]
            if self.cfg["divmod"]:
                ops += ["/", "%"]
        op = self.rng.choice(ops)
        l = self.int_expr(fields, mode, depth - 1)
        if l["t"] == "lit":
            # a Python int cannot stand on the left of a DSL operator
            l = {"t": "slit", "v": l["v"]}
        if op in ("<<", ">>"):
            r = LIT(self.rng.randint(0, 7))
        elif op in ("/", "%"):
            r = LIT(self.rng.randint(1, 9))
        else:
            r = self.int_expr(fields, mode, depth - 1)
        return BIN(op, l, r)

    def rel_expr(self, fields, depth):
        # field-free comparisons are of no practical interest; keep at least one
        # field reference (the library used to drop such statements silently:
        # fixed, see known_findings.json FX-C02-FIELDFREE)
        for _ in range(8):
            e = self._rel_expr(fields, depth)
            if has_field(e):
                return e
        f = self.rng.choice(fields)
        return BIN(self.rng.choice(REL), {"t": "f", "p": f["_p"]},
                   LIT(self.small_literal(f, "S" if f["s"] else "U")))

    def _rel_expr(self, fields, depth):
        sf = [f for f in fields if f["s"]]
        uf = [f for f in fields if not f["s"]]
        r = self.rng.random()
        if sf and uf and r < 0.12:
            # direct mixed comparison: unambiguous (unsigned compare, zero extension)
            a, b = self.rng.choice(sf), self.rng.choice(uf)
            l, rr = (a, b) if self.rng.random() < 0.5 else (b, a)
            return BIN(self.rng.choice(REL), {"t": "f", "p": l["_p"]}, {"t": "f", "p": rr["_p"]})
        if sf and (not uf or self.rng.random() < len(sf) / float(len(sf) + len(uf))):
            mode = "S"
        elif uf:
            mode = "U"
        else:
            mode = "S"
        l = self.int_expr(fields, mode, depth)
        tries = 0
        while l["t"] in ("lit", "slit", "ulit") and tries < 4:
            l = self.int_expr(fields, mode, depth)
            tries += 1
        if l["t"] == "lit":
            l = {"t": "slit", "v": l["v"]}
        rr = self.int_expr(fields, mode, max(0, depth - 1))
        return BIN(self.rng.choice(REL), l, rr)

    def in_expr(self, fields):
        f = self.rng.choice(fields)
        mode = "S" if f["s"] else "U"
        n = self.rng.randint(1, 3)
        rl = []
        for _ in range(n):
            a = self.small_literal(f, mode)
            if self.rng.random() < 0.5:
                b = self.small_literal(f, mode)
                lo, hi = min(a, b), max(a, b)
                rl.append([lo, hi])
            else:
                rl.append(a)
        return {"t": "in", "e": {"t": "f", "p": f["_p"]}, "rl": rl}

    def bool_expr(self, fields, depth, enums=None, efields=None):
        r = self.rng.random()
        if efields and r < 0.15:
            f = self.rng.choice(efields)
            item = self.rng.choice(enums[f["en"]]["items"])[0]
            return BIN(self.rng.choice(["==", "!="]), {"t": "f", "p": f["_p"]},
                       {"t": "en", "en": f["en"], "item": item})
        if depth > 0 and r < 0.30:
            op = self.rng.choice(["&", "|"])
            return BIN(op, self.bool_expr(fields, depth - 1, enums, efields),
                       self.bool_expr(fields, depth - 1, enums, efields))
        if depth > 0 and r < 0.38:
            return {"t": "not", "e": self.bool_expr(fields, depth - 1, enums, efields)}
        if r < 0.52 and fields:
            return self.in_expr(fields)
        return self.rel_expr(fields, depth)

    # ----------------------------------------------------------- statements
    def stmt(self, fields, depth, enums=None, efields=None, kinds=None, nest=1):
        kinds = kinds or self.cfg["stmts"]
        k = self.rng.choice(kinds)
        if k == "if" and nest > 0:
            s = {"t": "if", "c": self.bool_expr(fields, 1, enums, efields),
                 "then": self.stmts(fields, depth, enums, efields, 1, 2, nest - 1),
                 "elifs": [], "else": None}
            if self.rng.random() < 0.3:
                s["elifs"].append([self.bool_expr(fields, 1, enums, efields),
                                   self.stmts(fields, depth, enums, efields, 1, 2, nest - 1)])
            if self.rng.random() < 0.5:
                s["else"] = self.stmts(fields, depth, enums, efields, 1, 2, nest - 1)
            return s
        if k == "implies" and nest > 0:
            return {"t": "implies", "c": self.bool_expr(fields, 1, enums, efields),
                    "body": self.stmts(fields, depth, enums, efields, 1, 2, nest - 1)}
        if k == "in":
            return EXPR(self.in_expr(fields))
        if k == "unique" and len(fields) >= 2:
            n = self.rng.randint(2, min(3, len(fields)))
            fs = self.rng.sample(fields, n)
            # same signedness only (pairwise != under mixed signs is the
            # direct-comparison rule, fine, but keep widths honest)
            return {"t": "unique", "args": [{"t": "f", "p": f["_p"]} for f in fs]}
        if k == "soft" and self.cfg["soft"]:
            return {"t": "soft", "e": self.bool_expr(fields, 1, enums, efields)}
        return EXPR(self.bool_expr(fields, depth, enums, efields))

    def stmts(self, fields, depth, enums=None, efields=None, lo=1, hi=3, nest=1):
        return [self.stmt(fields, depth, enums, efields, nest=nest)
                for _ in range(self.rng.randint(lo, hi))]

    # -------------------------------------------------------------- classes
    def flat_class(self, name, enums=None):
        """one class with scalar (and optionally enum) fields and blocks"""
        rng, cfg = self.rng, self.cfg
        n = rng.randint(cfg["min_fields"], cfg["max_fields"])
        fields = []
        for i in range(n):
            rand = True
            if cfg["nonrand"] and i > 0 and rng.random() < 0.25:
                rand = False
            f = self.scalar_field("f%d" % i, rand)
            if not rand:
                f["i"] = self.in_range_value(f)
            fields.append(f)
        edefs = {}
        efields = []
        if cfg["enums"] and enums:
            edefs = {e["name"]: e for e in enums}
            for i in range(rng.randint(0, 2)):
                en = rng.choice(enums)["name"]
                efields.append({"n": "e%d" % i, "k": "e", "en": en,
                                "r": rng.random() < 0.8})
        for f in fields + efields:
            f["_p"] = [f["n"]]
        blocks = []
        for b in range(rng.randint(1, cfg["max_blocks"])):
            blocks.append({"n": "c%d" % b,
                           "stmts": self.stmts(fields, cfg["depth"], edefs, efields,
                                               1, cfg["max_stmts"])})
        out_fields = []
        for f in fields + efields:
            g = dict(f)
            g.pop("_p")
            out_fields.append(g)
        return {"name": name, "fields": out_fields, "blocks": blocks}

    def enum_defs(self, n=1):
        out = []
        for i in range(n):
            k = self.rng.randint(2, 5)
            vals = self.rng.sample(range(0, 12), k)
            if self.rng.random() < 0.3:
                vals[0] = -self.rng.randint(1, 5)
            out.append({"name": "E%d" % i,
                        "items": [["I%d" % j, v] for j, v in enumerate(sorted(vals))]})
        return out

    def inline_stmts(self, cdef, enums=None, lo=1, hi=2):
        fields, efields = fields_with_paths(cdef)
        edefs = {e["name"]: e for e in (enums or [])}
        return self.stmts(fields, 1, edefs, efields, lo, hi, nest=1)


def has_field(e):
    if isinstance(e, dict):
        if e.get("t") in ("f", "ps", "size", "sum", "product", "idx", "dynref", "inlist"):
            return True
        return any(has_field(v) for v in e.values())
    if isinstance(e, list):
        return any(has_field(v) for v in e)
    return False


def fields_with_paths(cdef, prefix=None):
    fields, efields = [], []
    for f in cdef["fields"]:
        g = dict(f)
        g["_p"] = (prefix or []) + [f["n"]]
        if f["k"] == "s":
            fields.append(g)
        elif f["k"] == "e":
            efields.append(g)
    return fields, efields


def strip(obj):
    """remove generator-private keys"""
    if isinstance(obj, dict):
        return {k: strip(v) for k, v in obj.items() if not k.startswith("_")}
    if isinstance(obj, list):
        return [strip(v) for v in obj]
    return obj


def shape_sig(obj, depth=0):
    """structure-only signature of an AST (no literals, no names)"""
    if isinstance(obj, dict):
        t = obj.get("t") or obj.get("k") or ""
        parts = [t + (obj.get("op") or "")]
        for k in sorted(obj):
            if k in ("v", "n", "name", "i", "p", "hi", "lo", "rl", "item", "en"):
                continue
            v = obj[k]
            if isinstance(v, (dict, list)):
                parts.append(shape_sig(v, depth + 1))
        return "(" + " ".join(parts) + ")"
    if isinstance(obj, list):
        return "[" + ",".join(shape_sig(v, depth + 1) for v in obj) + "]"
    return ""


# ---------------------------------------------------------------------------
# program shrinking (used by the minimiser after/alongside op deletion)
# ---------------------------------------------------------------------------
import copy as _copy

_STMT_LIST_KEYS = ("stmts", "then", "else", "body", "inline")


def _walk(node, path, out):
    if isinstance(node, dict):
        out.append((path, node))
        for k in sorted(node):
            _walk(node[k], path + [k], out)
    elif isinstance(node, list):
        out.append((path, node))
        for i, v in enumerate(node):
            _walk(v, path + [i], out)


def _get(root, path):
    cur = root
    for p in path:
        cur = cur[p]
    return cur


def _set(root, path, val):
    cur = root
    for p in path[:-1]:
        cur = cur[p]
    cur[path[-1]] = val


def _is_stmt_list(path, node):
    if not isinstance(node, list) or not path:
        return False
    k = path[-1]
    if k in _STMT_LIST_KEYS:
        return True
    # elif bodies: [..., "elifs", i, 1]
    if len(path) >= 3 and path[-3] == "elifs" and k == 1:
        return True
    return False


def shrink_record(rec, keys=("prog", "ops"), limit=200):
    """candidate records with a smaller program / smaller inline blocks"""
    nodes = []
    for key in keys:
        if key in rec:
            _walk(rec[key], [key], nodes)
    cands = []

    def add(path, val):
        c = _copy.deepcopy(rec)
        _set(c, path, val)
        cands.append(c)

    # 1. drop whole blocks / unreferenced trailing structure
    for (path, node) in nodes:
        if path and path[-1] == "blocks" and isinstance(node, list):
            for i in range(len(node)):
                add(path, node[:i] + node[i + 1:])
    # 2. drop statements (from the end), splice if/implies bodies
    for (path, node) in nodes:
        if _is_stmt_list(path, node):
            if len(node) > 2:
                add(path, node[:len(node) // 2])
                add(path, node[len(node) // 2:])
            for i in range(len(node) - 1, -1, -1):
                add(path, node[:i] + node[i + 1:])
            for i, s in enumerate(node):
                if isinstance(s, dict) and s.get("t") == "if":
                    add(path, node[:i] + list(s["then"]) + node[i + 1:])
                    if s.get("else") is not None:
                        add(path, node[:i] + list(s["else"]) + node[i + 1:])
                        s2 = dict(s)
                        s2["else"] = None
                        add(path, node[:i] + [s2] + node[i + 1:])
                    if s.get("elifs"):
                        s2 = dict(s)
                        s2["elifs"] = []
                        add(path, node[:i] + [s2] + node[i + 1:])
                elif isinstance(s, dict) and s.get("t") == "implies":
                    add(path, node[:i] + list(s["body"]) + node[i + 1:])
                elif isinstance(s, dict) and s.get("t") == "foreach":
                    pass
    # 3. simplify expressions
    for (path, node) in nodes:
        if isinstance(node, dict) and node.get("t") == "bin":
            if node["op"] in ("&", "|") or node["op"] not in REL:
                for side in ("l", "r"):
                    sub = node[side]
                    if isinstance(sub, dict):
                        add(path, sub)
        elif isinstance(node, dict) and node.get("t") == "not":
            add(path, node["e"])
        elif isinstance(node, dict) and node.get("t") in ("in",) and len(node.get("rl", [])) > 1:
            for i in range(len(node["rl"])):
                n2 = dict(node)
                n2["rl"] = node["rl"][:i] + node["rl"][i + 1:]
                add(path, n2)
    # 4. relational operands: replace an arithmetic operand by one of its leaves
    for (path, node) in nodes:
        if isinstance(node, dict) and node.get("t") == "bin" and node["op"] in REL:
            for side in ("l", "r"):
                sub = node[side]
                if isinstance(sub, dict) and sub.get("t") == "bin":
                    for s2 in ("l", "r"):
                        n2 = dict(node)
                        n2[side] = sub[s2]
                        add(path, n2)
    return cands[:limit]


# ---------------------------------------------------------------------------
# composite programs: object trees, lists, foreach, aggregates
# ---------------------------------------------------------------------------
def _loopvar(depth=0, it=True, off=0):
    d = {"d": depth}
    if it:
        d["it"] = 1
    if off:
        d["o"] = off
    return d


class TreeGen(Gen):
    """object trees of depth <= 3; classes are generated bottom-up"""

    def __init__(self, rng, cfg=None, feats=None):
        super().__init__(rng, cfg)
        f = {"lists": True, "objlists": True, "nonrand_sub": True, "cb": False,
             "dyn": False, "foreach": True, "agg": True, "cross": True, "enums": False,
             "randsz": False, "depth": 2, "fanout": 2}
        if feats:
            f.update(feats)
        self.feats = f
        self.classes = []
        self.enums = []
        self._n = 0

    def reach(self, cdef, prefix=None, rand_only=True, depth=3):
        """scalar field descriptors (with paths) reachable from an object of
        class cdef through random sub-objects / object-list elements"""
        out = []
        prefix = prefix or []
        by_name = {c["name"]: c for c in self.classes}
        for f in cdef["fields"]:
            if f["k"] == "s":
                g = dict(f)
                g["_p"] = prefix + [f["n"]]
                out.append(g)
            elif f["k"] == "o" and depth > 0 and (f.get("r") or not rand_only):
                out += self.reach(by_name[f["c"]], prefix + [f["n"]], rand_only, depth - 1)
            elif f["k"] == "lo" and depth > 0 and (f.get("r") or not rand_only):
                for i in range(f.get("sz", 0)):
                    out += self.reach(by_name[f["c"]], prefix + [f["n"], i], rand_only, depth - 1)
            elif f["k"] == "l" and not f.get("rsz") and all(isinstance(x, str) for x in prefix):
                # (an element of a list that is itself reached through a list
                # index raises NotImplementedError in the library: not generated)
                for i in range(f.get("sz", 0)):
                    out.append({"k": "s", "w": f["w"], "s": f["s"], "n": f["n"],
                                "_p": prefix + [f["n"], i]})
        return out

    def _has_list(self, cdef):
        by_name = {c["name"]: c for c in self.classes}
        for f in cdef["fields"]:
            if f["k"] in ("l", "le"):
                return True
            if f["k"] in ("o", "lo") and self._has_list(by_name[f["c"]]):
                return True
        return False

    def make_class(self, level):
        rng, ft = self.rng, self.feats
        name = "K%d" % self._n
        self._n += 1
        fields = []
        for i in range(rng.randint(1, 3)):
            rand = not (self.cfg["nonrand"] and rng.random() < 0.2)
            f = self.scalar_field("a%d" % i, rand)
            if not rand:
                f["i"] = self.in_range_value(f)
            fields.append(f)
        if ft["enums"] and self.enums and rng.random() < 0.4:
            fields.append({"n": "e0", "k": "e", "en": rng.choice(self.enums)["name"],
                           "r": rng.random() < 0.8})
        if ft["lists"] and rng.random() < 0.6:
            w = rng.choice([2, 3, 4])
            fields.append({"n": "l0", "k": "l", "w": w, "s": bool(self.cfg["signed"] and rng.random() < 0.25),
                           "r": rng.random() < 0.85, "rsz": False, "sz": rng.randint(1, 4)})
        lower = [c for c in self.classes if c["_level"] < level]
        if lower and level > 0:
            for i in range(rng.randint(1, ft["fanout"])):
                c = rng.choice(lower)
                fields.append({"n": "o%d" % i, "k": "o", "c": c["name"],
                               "r": not (ft["nonrand_sub"] and rng.random() < 0.25)})
            # (element classes hold no scalar list, directly or below: a list
            # element reached through a list index cannot be referenced)
            nolist = [c for c in lower if not self._has_list(c)]
            if ft["objlists"] and nolist and rng.random() < 0.5:
                c = rng.choice(nolist)
                fields.append({"n": "ol0", "k": "lo", "c": c["name"], "r": True,
                               "sz": rng.randint(1, 3)})
        cdef = {"name": name, "fields": fields, "blocks": [], "_level": level}
        if ft["cb"]:
            cdef["cb"] = True
        self.classes.append(cdef)
        # blocks
        own = [dict(f, _p=[f["n"]]) for f in fields if f["k"] == "s"]
        reach = self.reach(cdef) if ft["cross"] else own
        nb = rng.randint(1, self.cfg["max_blocks"])
        for b in range(nb):
            stmts = []
            for _ in range(rng.randint(1, self.cfg["max_stmts"])):
                r = rng.random()
                lists = [f for f in fields if f["k"] == "l"]
                olists = [f for f in fields if f["k"] == "lo"]
                if ft["foreach"] and lists and r < 0.2:
                    stmts.append(self.foreach_scalar(rng.choice(lists), own))
                elif ft["foreach"] and olists and r < 0.3:
                    stmts.append(self.foreach_obj(rng.choice(olists), own))
                elif ft["agg"] and lists and r < 0.4:
                    stmts.append(self.aggregate(rng.choice(lists), own))
                else:
                    pool = reach if (rng.random() < 0.6 and len(reach) > len(own)) else own
                    if rng.random() < self.cfg.get("loose", 0.0):
                        stmts.append(simple_stmt(rng, pool))
                    else:
                        stmts.append(self.stmt(pool, self.cfg["depth"]))
            cdef["blocks"].append({"n": "c%d" % b, "stmts": stmts})
        return cdef

    def foreach_scalar(self, lf, own):
        rng = self.rng
        elem = {"k": "s", "w": lf["w"], "s": lf["s"], "n": "it", "_p": [lf["n"], _loopvar(0, True)]}
        pool = [elem] + [f for f in own if f["s"] == lf["s"]]
        body = []
        for _ in range(rng.randint(1, 2)):
            r = rng.random()
            if r < (0.45 if lf["s"] else 0.25):
                # element vs index arithmetic (the index is a signed int: 'i - k' goes negative)
                body.append(EXPR(BIN(rng.choice(REL), {"t": "f", "p": elem["_p"]},
                                     BIN(rng.choice(["+", "-"]) if lf["s"] else "+", {"t": "idx"},
                                         LIT(rng.randint(0, 3))))))
            elif r < (0.6 if lf["s"] else 0.45) and lf.get("sz", 0) >= 2:
                # neighbour relation guarded by the index
                nb = {"t": "f", "p": [lf["n"], _loopvar(0, False, -1)]}
                body.append({"t": "if", "c": BIN(">", {"t": "idx"}, LIT(0)),
                             "then": [EXPR(BIN(rng.choice(REL), {"t": "f", "p": [lf["n"], _loopvar(0, False)]}, nb))],
                             "elifs": [], "else": None})
            else:
                body.append(self.stmt(pool, 1, kinds=["expr", "expr", "in"], nest=0))
        return {"t": "foreach", "p": [lf["n"]], "it": True, "idx": True, "body": body}

    def foreach_obj(self, lf, own):
        rng = self.rng
        by_name = {c["name"]: c for c in self.classes}
        ec = by_name[lf["c"]]
        elems = [dict(f, _p=[lf["n"], _loopvar(0, True), f["n"]])
                 for f in ec["fields"] if f["k"] == "s"]
        pool = elems + own
        body = [self.stmt(pool, 1, kinds=["expr", "expr", "in"], nest=0)
                for _ in range(rng.randint(1, 2))]
        return {"t": "foreach", "p": [lf["n"]], "it": True, "idx": True, "body": body}

    def aggregate(self, lf, own):
        rng = self.rng
        r = rng.random()
        n = lf.get("sz", 0)
        hi = ((1 << lf["w"]) - 1) if not lf["s"] else (1 << (lf["w"] - 1)) - 1
        if r < 0.4:
            tot = rng.randint(0, max(1, hi * n // 2))
            return EXPR(BIN(rng.choice(["==", "<=", ">=", "<", ">"]), {"t": "sum", "p": [lf["n"]]}, LIT(tot)))
        if r < 0.6 and n <= (1 << lf["w"]):
            return {"t": "unique", "args": [{"t": "flist", "p": [lf["n"]]}]}
        if r < 0.8:
            cands = [f for f in own if f["s"] == lf["s"]]
            if cands:
                f = rng.choice(cands)
                return EXPR({"t": "inlist", "e": {"t": "f", "p": f["_p"]}, "p": [lf["n"]]})
        return EXPR(BIN(rng.choice(["==", "<=", ">="]), {"t": "sum", "p": [lf["n"]]},
                        LIT(rng.randint(0, max(1, hi * n // 2)))))

    def tree_program(self):
        depth = self.feats["depth"]
        if self.feats["enums"]:
            self.enums = self.enum_defs(1)
        for level in range(depth):
            n = 1 if level == depth - 1 else self.rng.randint(1, 2)
            for _ in range(n):
                self.make_class(level)
        top = self.classes[-1]["name"]
        prog = {"enums": self.enums, "classes": [strip(c) for c in self.classes], "top": top}
        return prog


# ---------------------------------------------------------------------------
# class hierarchies (C07) and dynamic constraints (C06)
# ---------------------------------------------------------------------------
def simple_stmt(rng, fields):
    """constraint statement whose lowering is trivial: range / comparison with a
    same-signed literal / field-to-field comparison of equal signedness"""
    f = rng.choice(fields)
    w, s = f["w"], f["s"]
    lo, hi = (-(1 << (w - 1)), (1 << (w - 1)) - 1) if s else (0, (1 << w) - 1)
    fe = {"t": "f", "p": f["_p"]}
    r = rng.random()
    if r < 0.35:
        a, b = sorted([rng.randint(lo, hi), rng.randint(lo, hi)])
        return EXPR({"t": "in", "e": fe, "rl": [[a, b]]})
    if r < 0.8:
        return EXPR(BIN(rng.choice(["<", "<=", ">", ">=", "!=", "=="] if hi - lo > 1 else ["<=", ">=", "!="]),
                        fe, LIT(rng.randint(lo, hi))))
    same = [g for g in fields if g["s"] == s and g["_p"] != f["_p"]]
    if same:
        g = rng.choice(same)
        return EXPR(BIN(rng.choice(["<", "<=", ">", ">=", "!="]), fe, {"t": "f", "p": g["_p"]}))
    return EXPR(BIN("!=", fe, LIT(rng.randint(lo, hi))))


def hierarchy(rng, depth=3, prefix="H", with_list=False):
    """chain of classes prefix0 <- prefix1 <- ...; derived classes add fields,
    override some block names and add new blocks"""
    classes = []
    all_fields = []
    block_names = []
    for d in range(depth):
        fields = []
        if with_list and d == 0:
            fields.append({"n": "lst", "k": "l", "w": 3, "s": False, "r": True, "rsz": False,
                           "sz": rng.randint(1, 3)})
        for i in range(rng.randint(1, 2)):
            w = rng.choice([2, 3, 3, 4])
            fields.append({"n": "f%d_%d" % (d, i), "k": "s", "w": w,
                           "s": rng.random() < 0.3, "r": True, "i": 0})
        all_fields += [dict(f, _p=[f["n"]]) for f in fields if f["k"] == "s"]
        blocks = []
        if with_list and (d == 0 or rng.random() < 0.4):
            # a block whose body is expanded per element (may be overridden further down)
            n = "%sfe" % rng.choice("abxy") if d == 0 else None
            if d == 0:
                block_names.append(n)
            else:
                n = [b for b in block_names if b.endswith("fe")][0]
            hi = rng.randint(1, 6)
            body = [EXPR(BIN(rng.choice(["<=", "<", "!="]), {"t": "f", "p": ["lst", _loopvar(0, True)]}, LIT(hi)))]
            blocks.append({"n": n, "stmts": [{"t": "foreach", "p": ["lst"], "it": True, "idx": True, "body": body}]})
        # override some inherited names
        for n in block_names:
            if n.endswith("fe") or n in [b["n"] for b in blocks]:
                continue
            if rng.random() < 0.5:
                blocks.append({"n": n, "stmts": [simple_stmt(rng, all_fields)
                                                 for _ in range(rng.randint(1, 2))]})
        for i in range(rng.randint(1, 2)):
            # a derived class's new blocks may sort before or after the inherited ones
            n = "%s%d_%d" % (rng.choice("abcxyz"), d, i)
            block_names.append(n)
            blocks.append({"n": n, "stmts": [simple_stmt(rng, all_fields)
                                             for _ in range(rng.randint(1, 2))]})
        classes.append({"name": "%s%d" % (prefix, d), "base": ("%s%d" % (prefix, d - 1)) if d else None,
                        "fields": fields, "blocks": blocks})
    return classes


# ---------------------------------------------------------------------------
# list programs (C04)
# ---------------------------------------------------------------------------
class ListGen(TreeGen):

    def list_program(self, allow_randsz=True, allow_obj=True, gates=(), extra=()):
        """extra: "cond_nonrand" - foreach bodies branching on elements of a non-random list
        (both lists are named in prog["frozen"]: their length must not be edited);
        "nested_if" - a foreach below an if below a foreach"""
        rng = self.rng
        enums = self.enum_defs(1)
        self.enums = enums
        leaf = {"name": "L0", "fields": [self.scalar_field("x", True, width=rng.choice([2, 3])),
                                         self.scalar_field("y", True, width=rng.choice([2, 3]))],
                "blocks": [], "_level": 0}
        leaf["blocks"].append({"n": "c0", "stmts": [simple_stmt(rng, [dict(f, _p=[f["n"]]) for f in leaf["fields"]])]})
        self.classes = [leaf]
        fields = []
        for i in range(rng.randint(1, 2)):
            fields.append(self.scalar_field("a%d" % i, True, width=rng.choice([2, 3, 4])))
        if rng.random() < 0.5:
            f = self.scalar_field("k0", False, width=rng.choice([2, 3]))
            f["i"] = self.in_range_value(f)
            fields.append(f)
        lists = []
        n_l = rng.randint(1, 3)
        for i in range(n_l):
            r = rng.random()
            w = rng.choice([2, 3, 4])
            s = bool(self.cfg["signed"] and rng.random() < 0.4)
            if allow_randsz and r < 0.3:
                lf = {"n": "l%d" % i, "k": "l", "w": w, "s": s, "r": True, "rsz": True, "sz": 0}
            elif r < 0.8:
                lf = {"n": "l%d" % i, "k": "l", "w": w, "s": s, "r": rng.random() < 0.85,
                      "rsz": False, "sz": rng.choice([0, 1, 2, 3, 3, 4])}
            else:
                lf = {"n": "l%d" % i, "k": "le", "en": enums[0]["name"], "r": True, "rsz": False,
                      "sz": rng.choice([1, 2, 3])}
            lists.append(lf)
        fields += lists
        if allow_obj and rng.random() < 0.4:
            fields.append({"n": "ol", "k": "lo", "c": "L0", "r": True, "sz": rng.randint(1, 3)})
        feat_nested = None
        if allow_obj and rng.random() < 0.3:
            # rows of objects each holding a list (made ragged by appends in the op history);
            # nested foreach over rows[i].v
            w_ = rng.choice([2, 3])
            row = {"name": "R0", "fields": [{"n": "v", "k": "l", "w": w_, "s": False, "r": True,
                                             "rsz": False, "sz": rng.randint(1, 2)}],
                   "blocks": [], "_level": 0}
            self.classes.insert(0, row)
            fields.append({"n": "rows", "k": "lo", "c": "R0", "r": True, "sz": rng.randint(2, 3)})
            hi_ = rng.randint(0, (1 << w_) - 2)
            # (index form self.rows[i].v[j]; the iterator form is not supported by the library here)
            inner_elem = {"t": "f", "p": ["rows", _loopvar(1, False), "v", _loopvar(0, False)]}
            feat_nested = {"t": "foreach", "p": ["rows"], "it": True, "idx": True, "body": [
                {"t": "foreach", "p": ["rows", _loopvar(0, False), "v"], "it": True, "idx": True,
                 "body": [EXPR(BIN(rng.choice(["<=", "!=", "<"]), inner_elem, LIT(hi_ + 1)))]}]}
        cdef = {"name": "K0", "fields": fields, "blocks": [], "_level": 1}
        self.classes.append(cdef)
        own = [dict(f, _p=[f["n"]]) for f in fields if f["k"] == "s"]
        stmts = []
        for lf in lists:
            if lf.get("rsz"):
                hi = rng.randint(1, 5)
                lo = rng.randint(0, hi)
                r = rng.random()
                if r < 0.5:
                    stmts.append(EXPR({"t": "in", "e": {"t": "size", "p": [lf["n"]]}, "rl": [[lo, hi]]}))
                elif r < 0.8:
                    stmts.append(EXPR(BIN("<=", {"t": "size", "p": [lf["n"]]}, LIT(hi))))
                    if rng.random() < 0.5:
                        stmts.append(EXPR(BIN(">=", {"t": "size", "p": [lf["n"]]}, LIT(lo))))
                else:
                    stmts.append(EXPR(BIN("==", {"t": "size", "p": [lf["n"]]}, LIT(rng.randint(0, 4)))))
        for _ in range(rng.randint(1, 4)):
            lf = rng.choice(lists)
            r = rng.random()
            if lf["k"] == "le":
                item = rng.choice(enums[0]["items"])[0]
                stmts.append({"t": "foreach", "p": [lf["n"]], "it": True, "idx": True, "body": [
                    EXPR(BIN(rng.choice(["==", "!="]), {"t": "f", "p": [lf["n"], _loopvar(0, True)]},
                             {"t": "en", "en": lf["en"], "item": item}))]})
            elif r < 0.45:
                stmts.append(self.foreach_scalar(lf, own))
            elif lf.get("rsz") and "randsz-aggregate" in gates:
                stmts.append(self.foreach_scalar(lf, own))
            else:
                stmts.append(self.aggregate(lf, own))
        if "ol" in [f["n"] for f in fields]:
            stmts.append(self.foreach_obj([f for f in fields if f["n"] == "ol"][0], own))
        same = [l for l in lists if l["k"] == "l" and not l.get("rsz") and l["r"] and l["sz"] >= 1]
        for a in same:
            for b in same:
                if a is not b and a["sz"] == b["sz"] and a["s"] == b["s"] and rng.random() < 0.3:
                    stmts.append({"t": "unique_vec", "args": [{"t": "flist", "p": [a["n"]]},
                                                                 {"t": "flist", "p": [b["n"]]}]})
        if own and rng.random() < 0.5:
            stmts.append(self.stmt(own, 1))
        # statements naming individual elements by a fixed index, mixed with scalars (the
        # same element may be named by several statements: rand sets must merge)
        elems = []
        for lf in lists:
            if lf["k"] == "l" and not lf.get("rsz"):
                for i in range(lf["sz"]):
                    elems.append({"k": "s", "w": lf["w"], "s": lf["s"], "n": lf["n"], "_p": [lf["n"], i]})
        if elems and rng.random() < 0.6:
            for _ in range(rng.randint(1, 3)):
                e = rng.choice(elems)
                pool = [e] + [f for f in own + elems if f["s"] == e["s"] and f["_p"] != e["_p"]][:3]
                stmts.append(simple_stmt(rng, pool) if rng.random() < 0.5 else
                             self.stmt(pool, 1, kinds=["expr", "expr", "in"], nest=0))
        if feat_nested:
            if "nested_if" in extra and own and rng.random() < 0.5:
                # the inner foreach sits below a condition on a scalar
                sc = rng.choice(own)
                inner_fe = feat_nested["body"][0]
                feat_nested["body"] = [{"t": "if", "c": BIN(rng.choice(["<", ">", "!="]), F(sc["n"]), LIT(rng.randint(0, 2))),
                                        "then": [inner_fe], "elifs": [], "else": None}]
            stmts.append(feat_nested)
        frozen = []
        plain = [l for l in lists if l["k"] == "l" and not l.get("rsz") and l["sz"] >= 1]
        if "nested_if" in extra and len(plain) >= 1 and rng.random() < 0.4:
            la = rng.choice(plain)
            lb = rng.choice(plain)
            rel = ["<", ">", "<=", "!=", "=="]
            stmts.append({"t": "foreach", "p": [la["n"]], "it": True, "idx": True, "body": [
                {"t": "if", "c": BIN(rng.choice(rel), {"t": "f", "p": [la["n"], _loopvar(0, False)]},
                                     LIT(rng.randint(0, 1))),
                 "then": [{"t": "foreach", "p": [lb["n"]], "it": True, "idx": True, "body": [
                     EXPR(BIN(rng.choice(rel), {"t": "f", "p": [lb["n"], _loopvar(0, False)]},
                              LIT(rng.randint(0, 1))))]}],
                 "elifs": [], "else": None}]})
        if "cond_nonrand" in extra and plain and rng.random() < 0.45:
            lf = rng.choice([l for l in plain if l["r"]] or plain)
            kl = {"n": "kl", "k": "l", "w": 2, "s": False, "r": False, "rsz": False, "sz": lf["sz"]}
            fields.append(kl)
            lists.append(kl)
            frozen = [lf["n"], "kl"]
            elem = {"t": "f", "p": [lf["n"], _loopvar(0, False)]}
            rel = ["<", ">", "<=", "!=", "=="]
            stmts.append({"t": "foreach", "p": [lf["n"]], "it": True, "idx": True, "body": [
                {"t": "if", "c": BIN("==", {"t": "f", "p": ["kl", _loopvar(0, False)]}, LIT(rng.randint(0, 2))),
                 "then": [EXPR(BIN(rng.choice(rel), elem, LIT(rng.randint(0, 1))))], "elifs": [],
                 "else": [EXPR(BIN(rng.choice(rel), elem, LIT(rng.randint(0, 1))))]}]})
        self.frozen = frozen
        rng.shuffle(stmts)
        nb = rng.randint(1, 2)
        cut = len(stmts) // nb if nb > 1 else len(stmts)
        cdef["blocks"].append({"n": "c0", "stmts": stmts[:cut]})
        if nb > 1:
            cdef["blocks"].append({"n": "c1", "stmts": stmts[cut:]})
        out = {"enums": enums, "classes": [strip(c) for c in self.classes], "top": "K0"}
        if frozen:
            out["frozen"] = frozen
        return out

"""Batch runner: derives run seeds from VERIF_SEED, fans runs out to worker
interpreters (one PYTHONHASHSEED each, fork per run), aggregates evidence,
minimises and replays violations, applies the known-findings protocol.

exit codes: 0 property held on everything explored, 1 violation (with a
`VIOLATION property=<id> replay=<path>` line), 2 harness error.
"""
import concurrent.futures
import importlib
import json
import os
import subprocess
import sys
import tempfile
import time

from . import kernel

VERIF = os.path.dirname(os.path.dirname(os.path.abspath(__file__)))
PY = os.environ.get("VERIF_PYTHON", "/venv/bin/python")
WORKER = os.path.join(VERIF, "sim", "worker.py")
HASHSEEDS = [0, 1, 2, 3, 77, 1234, 4242, 99991]
NPROC = int(os.environ.get("VERIF_WORKERS", "16"))
GUARD = "PYVSC_VERIF"


def repo_src():
    return os.environ.get("VERIF_REPO_SRC", "/repo/src")


def load(pid):
    return importlib.import_module("sim.props." + pid.lower())


def worker_env(hashseed, extra=None):
    env = dict(os.environ)
    env["PYTHONHASHSEED"] = str(hashseed)
    env[GUARD] = "1"
    env["PYTHONPATH"] = repo_src() + os.pathsep + env.get("PYTHONPATH", "")
    env["PYTHONDONTWRITEBYTECODE"] = "1"
    for k in ("VSC_DEBUG", "VSC_SOLVEFAIL_DEBUG", "VSC_CAPTURE_SRCINFO", "VSC_PROFILE"):
        env.pop(k, None)
    if extra:
        env.update({k: str(v) for k, v in extra.items()})
    return env


def run_chunk(pid, tier, items, hashseed, extra_env=None, timeout=None):
    """execute items in one fresh interpreter; returns list of result dicts"""
    fd, path = tempfile.mkstemp(prefix="vchunk_", suffix=".json")
    with os.fdopen(fd, "w") as fp:
        json.dump(items, fp)
    try:
        p = subprocess.run([PY, WORKER, pid, tier, path],
                           env=worker_env(hashseed, extra_env),
                           stdout=subprocess.PIPE, stderr=subprocess.PIPE,
                           timeout=timeout)
    except subprocess.TimeoutExpired:
        return [{"i": it.get("i", 0), "seed": it.get("seed", 0),
                 "err": "worker wall timeout"} for it in items]
    finally:
        os.unlink(path)
    out = []
    for line in p.stdout.decode().splitlines():
        line = line.strip()
        if line.startswith("{"):
            out.append(json.loads(line))
    if len(out) != len(items):
        seen = {r.get("i") for r in out}
        for it in items:
            if it.get("i", 0) not in seen:
                out.append({"i": it.get("i", 0), "seed": it.get("seed", 0),
                            "err": "worker exited %s: %s" % (
                                p.returncode, p.stderr.decode()[-2000:])})
    return out


def run_seed(pid, batch_seed, i):
    return kernel.H("run", pid, batch_seed, i)


def hashseed_of(i):
    shift = int(os.environ.get("VERIF_HASHSEED_SHIFT", "0"))
    return HASHSEEDS[(i + shift) % len(HASHSEEDS)]


def run_batch(pid, tier, batch_seed, n_runs, wall_cap, chunk=None, mod=None,
              extra_env=None, nproc=None):
    """returns list of results ordered by run index"""
    nproc = nproc or NPROC
    by_hs = {}
    for i in range(n_runs):
        by_hs.setdefault(hashseed_of(i), []).append(
            {"i": i, "seed": run_seed(pid, batch_seed, i)})
    chunk = chunk or max(1, min(64, (n_runs + nproc * 2 - 1) // (nproc * 2)))
    tasks = []
    for hs, items in sorted(by_hs.items()):
        for k in range(0, len(items), chunk):
            tasks.append((hs, items[k:k + chunk]))
    results = []
    t0 = time.time()
    with concurrent.futures.ThreadPoolExecutor(max_workers=nproc) as ex:
        futs = [ex.submit(run_chunk, pid, tier, items, hs, extra_env, wall_cap)
                for (hs, items) in tasks]
        for f in futs:
            results.extend(f.result())
    results.sort(key=lambda r: r.get("i", 0))
    return results, time.time() - t0


# ---------------------------------------------------------------------------
# known findings
# ---------------------------------------------------------------------------
def load_findings():
    p = os.path.join(VERIF, "known_findings.json")
    if not os.path.exists(p):
        return []
    with open(p) as fp:
        return json.load(fp).get("findings", [])


def finding_matches(f, pid, viol, tags):
    if f.get("status") != "open" or f.get("property") != pid:
        return False
    m = f.get("match", {})
    if m.get("inv") and m["inv"] != viol.get("inv"):
        return False
    for t in m.get("tags", []):
        if t not in tags:
            return False
    return True


# ---------------------------------------------------------------------------
# minimisation
# ---------------------------------------------------------------------------
def exec_records(pid, tier, records, hashseed, extra_env=None):
    items = [{"i": k, "seed": 0, "record": r} for k, r in enumerate(records)]
    if not items:
        return []
    n = max(1, min(NPROC, len(items)))
    per = (len(items) + n - 1) // n
    res = []
    with concurrent.futures.ThreadPoolExecutor(max_workers=n) as ex:
        futs = [ex.submit(run_chunk, pid, tier, items[k:k + per], hashseed,
                          extra_env, 600)
                for k in range(0, len(items), per)]
        for f in futs:
            res.extend(f.result())
    res.sort(key=lambda r: r.get("i", 0))
    return res


def generic_shrinks(rec):
    """candidate records obtained by deleting runs of ops (large first)"""
    ops = rec.get("ops")
    if not isinstance(ops, list) or len(ops) == 0:
        return []
    out = []
    n = len(ops)
    size = n // 2
    while size >= 1:
        for start in range(n - size, -1, -size):
            c = dict(rec)
            c["ops"] = ops[:start] + ops[start + size:]
            out.append(c)
        size //= 2
    return out


def vcls(v):
    return v.get("cls") or v.get("inv")


def has_inv(res, inv):
    """inv may be an invariant name or a violation class (inv + discriminator)"""
    if res.get("err"):
        return False
    for v in res.get("viol", []):
        if v.get("inv") == inv or vcls(v) == inv:
            return True
    return False


def exec_records_maybe_x(pid, tier, records, hashseed, extra_env, inv):
    """like exec_records; for the cross-hashseed class every record is executed
    under two hash seeds and the violation is 'digests differ'"""
    if not inv.endswith("/hashseed"):
        return exec_records(pid, tier, records, hashseed, extra_env)
    a = exec_records(pid, tier, records, hashseed, extra_env)
    hs2 = HASHSEEDS[(HASHSEEDS.index(hashseed) + 3) % len(HASHSEEDS)]
    b = exec_records(pid, tier, records, hs2, extra_env)
    out = []
    for x, y in zip(a, b):
        r = dict(x)
        if x.get("err") or y.get("err"):
            r["err"] = x.get("err") or y.get("err")
        elif x.get("xdigest") != y.get("xdigest"):
            r["viol"] = list(x.get("viol", [])) + [{
                "inv": pid + ".variant_trace", "cls": inv,
                "detail": {"hashseed_a": hashseed, "hashseed_b": hs2,
                           "digest_a": x.get("xdigest"), "digest_b": y.get("xdigest")}}]
        out.append(r)
    return out


def minimise(pid, tier, mod, rec, inv, hashseed, extra_env=None,
             budget_s=240, log=None):
    t0 = time.time()
    cur = rec
    rounds = 0
    while time.time() - t0 < budget_s and rounds < 60:
        rounds += 1
        cands = []
        if hasattr(mod, "shrink"):
            cands.extend(mod.shrink(cur))
        cands.extend(generic_shrinks(cur))
        cands = cands[:256]
        if not cands:
            break
        res = exec_records_maybe_x(pid, tier, cands, hashseed, extra_env, inv)
        pick = None
        for r in res:
            if has_inv(r, inv):
                pick = r["i"]
                break
        if pick is None:
            break
        cur = cands[pick]
        if log:
            log("  minimise round %d: %d candidates, kept #%d" % (rounds, len(cands), pick))
    return cur


# ---------------------------------------------------------------------------
# top level
# ---------------------------------------------------------------------------
def say(*a):
    print(*a)
    sys.stdout.flush()


def write_replay(pid, tag, doc):
    d = os.path.join(VERIF, "replays")
    os.makedirs(d, exist_ok=True)
    path = os.path.join(d, "%s-%s.json" % (pid, tag))
    with open(path, "w") as fp:
        json.dump(doc, fp, indent=1, sort_keys=True, default=str)
    return path


def replay_file(pid, path, tier="quick"):
    """re-executes a replay/finding file in a brand-new interpreter; returns
    (reproduced, result)"""
    with open(path) as fp:
        doc = json.load(fp)
    rec = doc["record"]
    inv = doc.get("violation", {}).get("cls") or doc.get("violation", {}).get("inv")
    if inv and inv.endswith("/hashseed"):
        r = exec_records_maybe_x(pid, doc.get("tier", tier), [rec], doc.get("hashseed", 0),
                                 doc.get("env"), inv)[0]
        return has_inv(r, inv), r
    res = run_chunk(pid, doc.get("tier", tier), [{"i": 0, "seed": doc.get("seed", 0),
                                                  "record": rec}],
                    doc.get("hashseed", 0), doc.get("env"))
    r = res[0]
    return has_inv(r, inv) if inv else bool(r.get("viol")), r


def replay_regress(pid, tier="quick"):
    """regression corpus: minimised replays of defects that were fixed in /repo (and of
    breakages found in sensitivity studies).  None of them may reproduce.  Returns
    (n_replayed, [(path, result)] reproduced, [errors])"""
    import glob
    files = sorted(glob.glob(os.path.join(VERIF, "regress", pid, "*.json")))
    groups = {}
    for path in files:
        with open(path) as fp:
            doc = json.load(fp)
        inv = doc.get("violation", {}).get("cls") or doc.get("violation", {}).get("inv")
        key = (doc.get("hashseed", 0), json.dumps(doc.get("env"), sort_keys=True), doc.get("tier", tier))
        groups.setdefault(key, []).append((path, doc, inv))
    bad, errs, n = [], [], 0
    for (hs, _e, tr), items in sorted(groups.items(), key=lambda kv: kv[0]):
        res = run_chunk(pid, tr, [{"i": i, "seed": d.get("seed", 0), "record": d["record"]}
                                  for i, (_p, d, _v) in enumerate(items)], hs, items[0][1].get("env"))
        for (path, doc, inv), r in zip(items, res):
            n += 1
            if r.get("err"):
                errs.append((path, r["err"]))
            elif (has_inv(r, inv) if inv else bool(r.get("viol"))):
                bad.append((path, r))
    return n, bad, errs


def cmd_replay(pid, path):
    ok, r = replay_file(pid, path)
    if r.get("err"):
        say("HARNESS-ERROR property=%s %s" % (pid, r["err"]))
        return 2
    if ok:
        v = r["viol"][0]
        say("violation reproduced: %s %s" % (v["inv"], json.dumps(v.get("detail"), default=str)[:600]))
        say("VIOLATION property=%s replay=%s" % (pid, path))
        return 1
    say("not reproduced: property=%s replay=%s" % (pid, path))
    return 0


def merge_stats(results):
    stats = {}
    sigs = set()
    for r in results:
        for k, v in (r.get("stats") or {}).items():
            if isinstance(v, (int, float)):
                stats[k] = stats.get(k, 0) + v
            elif isinstance(v, dict):
                d = stats.setdefault(k, {})
                for kk, vv in v.items():
                    d[kk] = d.get(kk, 0) + vv
        for s in r.get("sigs") or []:
            sigs.add(s)
    return stats, sigs


def check(pid, tier, batch_seed):
    t_start = time.time()
    mod = load(pid)
    b = mod.budget(tier)
    # chunk wall cap: generous, the machine may be shared; a kill is always a harness error
    n_runs, wall_cap = b["runs"], max(b.get("wall", 600), 1800)
    if os.environ.get("VERIF_RUNS"):
        # smoke-testing a tier with fewer runs (never used by a registered command)
        n_runs = int(os.environ["VERIF_RUNS"])
    extra_env = b.get("env")
    say("check %s tier=%s VERIF_SEED=%d runs=%d repo_src=%s" % (
        pid, tier, batch_seed, n_runs, repo_src()))

    exit_code = 0
    findings = [f for f in load_findings() if f.get("property") == pid]
    known_seen = 0
    # (a) replay the listed concrete known findings first
    for f in findings:
        if f.get("status") != "open" or not f.get("replay"):
            continue
        ok, r = replay_file(pid, os.path.join(VERIF, f["replay"]), tier)
        if r.get("err"):
            say("HARNESS-ERROR property=%s finding %s: %s" % (pid, f["id"], r["err"][:1500]))
            exit_code = 2
        elif ok:
            known_seen += 1
            say("KNOWN-FINDING: property=%s %s [%s]" % (pid, f["what"], f["id"]))
        else:
            say("note: listed finding %s no longer reproduces (%s)" % (f["id"], f["what"]))

    # (a2) the regression corpus: replays of fixed defects must stay fixed
    n_regress, rbad, rerrs = (0, [], []) if os.environ.get("VERIF_NO_REGRESS") else replay_regress(pid, tier)
    for path, e in rerrs:
        say("HARNESS-ERROR property=%s regression replay %s: %s" % (pid, path, e[:1500]))
        exit_code = 2
    for path, r in rbad:
        v = r["viol"][0]
        say("violated invariant %s (regression of a recorded, fixed defect): %s" % (
            v.get("cls") or v["inv"], json.dumps(v.get("detail"), default=str)[:600]))
        say("VIOLATION property=%s replay=%s" % (pid, path))
        exit_code = 1
    if n_regress:
        say("regression corpus: %d replays, %d reproduced" % (n_regress, len(rbad)))

    results, wall = run_batch(pid, tier, batch_seed, n_runs, wall_cap,
                              extra_env=extra_env)
    errs = [r for r in results if r.get("err")]
    # the same scenarios again in fresh interpreters under other PYTHONHASHSEEDs
    xmis = []
    if getattr(mod, "CROSS_HASHSEED", False) and not errs:
        os.environ["VERIF_HASHSEED_SHIFT"] = "3"
        try:
            res2, wall2 = run_batch(pid, tier, batch_seed, n_runs, wall_cap, extra_env=extra_env)
        finally:
            os.environ.pop("VERIF_HASHSEED_SHIFT", None)
        wall += wall2
        errs.extend(r for r in res2 if r.get("err"))
        for a, b2 in zip(results, res2):
            if a.get("err") or b2.get("err"):
                continue
            if a.get("xdigest") != b2.get("xdigest"):
                xmis.append(a["i"])
                a.setdefault("viol", []).append(
                    {"inv": pid + ".variant_trace", "cls": pid + ".variant_trace/hashseed",
                     "detail": {"hashseed_a": hashseed_of(a["i"]),
                                "hashseed_b": HASHSEEDS[(a["i"] + 3) % len(HASHSEEDS)],
                                "digest_a": a.get("xdigest"), "digest_b": b2.get("xdigest")}})
        results_x = len(res2)
    else:
        results_x = 0
    viols = [r for r in results if r.get("viol")]
    stats, sigs = merge_stats(results)
    evaluations = sum(r.get("evals", 0) for r in results)
    sim_ms = sum(r.get("sim_ms", 0) for r in results)

    if errs:
        exit_code = 2
        for r in errs[:5]:
            say("HARNESS-ERROR property=%s run=%s seed=%s: %s" % (
                pid, r.get("i"), r.get("seed"), str(r["err"])[:3000]))

    reported = []
    suppressed = 0
    if viols and not errs:
        seen_inv = {}
        for r in viols:
            for v in r["viol"]:
                seen_inv.setdefault(vcls(v), []).append(r)
        for inv in sorted(seen_inv):
            say("violation class %s: %d runs" % (inv, len(seen_inv[inv])))
        max_report = int(os.environ.get("VERIF_MAX_REPORT", "4"))
        if max_report <= 0:
            # triage mode: classes only, no minimisation; still never a pass
            say("violations found (reporting disabled by VERIF_MAX_REPORT=0)")
            exit_code = 1
        # one representative (smallest run index) per violation class
        for inv in sorted(seen_inv)[:max_report]:
            cands = seen_inv[inv]
            done = False
            open_f = [f for f in findings if f.get("status") == "open"]
            if open_f and hasattr(mod, "tags"):
                # a listed finding covers only the runs that carry its identifying tags: every
                # run of the class is classified, un-minimised; the rest is reported as usual
                unknown, matched = [], None
                for r in cands:
                    v0 = [v for v in r["viol"] if vcls(v) == inv][0]
                    try:
                        tg0 = mod.tags(mod.generate(r["seed"], tier), v0)
                    except Exception:      # pragma: no cover
                        tg0 = []
                    kf0 = [f for f in open_f if finding_matches(f, pid, v0, tg0)]
                    if kf0:
                        matched = matched or (kf0[0], r)
                    else:
                        unknown.append(r)
                if matched and not unknown:
                    suppressed += 1
                    say("KNOWN-FINDING: property=%s %s [%s] (re-found by search: %d runs, first run seed %d)" % (
                        pid, matched[0]["what"], matched[0]["id"], len(cands), matched[1]["seed"]))
                    continue
                if matched:
                    say("note: %d of %d runs of class %s match listed finding %s; the others are examined" % (
                        len(cands) - len(unknown), len(cands), inv, matched[0]["id"]))
                    cands = unknown
            for r in cands[:4]:
                hs = hashseed_of(r["i"])
                rec = mod.generate(r["seed"], tier)
                say("violation candidate: run=%d seed=%d inv=%s (%d runs show it)" % (
                    r["i"], r["seed"], inv, len(cands)))
                small = minimise(pid, tier, mod, rec, inv, hs, extra_env, log=say)
                res = exec_records_maybe_x(pid, tier, [small], hs, extra_env, inv)[0]
                if not has_inv(res, inv):
                    say("HARNESS-ERROR property=%s minimised record does not reproduce %s" % (pid, inv))
                    exit_code = 2
                    continue
                viol = [v for v in res["viol"] if v["inv"] == inv or vcls(v) == inv][0]
                tags = mod.tags(small, viol) if hasattr(mod, "tags") else []
                kf = [f for f in findings if finding_matches(f, pid, viol, tags)]
                if kf:
                    suppressed += 1
                    say("KNOWN-FINDING: property=%s %s [%s] (re-found by search, run seed %d)" % (
                        pid, kf[0]["what"], kf[0]["id"], r["seed"]))
                    done = True
                    break
                doc = {"property": pid, "seed": r["seed"], "batch_seed": batch_seed,
                       "run_index": r["i"], "hashseed": hs, "env": extra_env,
                       "tier": tier, "record": small, "violation": viol,
                       "tags": tags, "ops_before_minimise": len(rec.get("ops", [])),
                       "ops_after_minimise": len(small.get("ops", []))}
                path = write_replay(pid, "%d" % r["seed"], doc)
                ok, rr = replay_file(pid, path, tier)
                if not ok:
                    say("HARNESS-ERROR property=%s replay in a fresh interpreter did not reproduce %s (%s)" % (
                        pid, inv, path))
                    exit_code = 2
                    continue
                say("violated invariant %s: %s" % (inv, json.dumps(viol.get("detail"), default=str)[:1200]))
                say("VIOLATION property=%s replay=%s" % (pid, path))
                reported.append(path)
                if exit_code == 0:
                    exit_code = 1
                done = True
                break
            if not done and exit_code == 0:
                exit_code = 2

    # reach probes / fault counters that must not be stuck at zero
    need = getattr(mod, "REQUIRED_NONZERO", {}).get(tier, getattr(mod, "REQUIRED_NONZERO", {}).get("*", []))
    for k in need:
        top, _, sub = k.partition(".")
        val = stats.get(top, 0)
        if sub:
            val = (val or {}).get(sub, 0) if isinstance(val, dict) else 0
        if not val and not errs:
            say("HARNESS-ERROR property=%s reach probe '%s' stuck at zero" % (pid, k))
            exit_code = 2 if exit_code == 0 else exit_code

    # evidence
    samples = []
    for r in results[:2]:
        try:
            samples.append(mod.sample(mod.generate(r["seed"], tier)))
        except Exception as e:     # pragma: no cover
            samples.append({"seed": r["seed"], "error": str(e)})
    total_wall = time.time() - t_start
    cov = {
        "evaluations": int(evaluations),
        "distinct_nontrivial": len(sigs),
        "rule": mod.RULE,
        "samples": samples,
        "runs": len(results),
        "runs_per_hour": int(len(results) / max(wall, 1e-6) * 3600),
        "simulated_seconds": round(sim_ms / 1000.0, 3),
        "seeds": {"VERIF_SEED": batch_seed,
                  "first_run_seed": results[0]["seed"] if results else None,
                  "last_run_seed": results[-1]["seed"] if results else None},
        "hashseeds": sorted(set(hashseed_of(i) for i in range(len(results)))),
        "cross_hashseed_reruns": results_x,
        "workers": NPROC,
        "stats": stats,
        "known_findings_seen": known_seen + suppressed,
        "regression_replays": n_regress,
        "regression_reproduced": len(rbad),
        "harness_errors": len(errs),
        "real_components": getattr(mod, "REAL", []),
        "stub_components": getattr(mod, "STUB", []),
        "run_digest": kernel.digest([(r.get("i"), r.get("digest")) for r in results]),
    }
    ev = {"property_id": pid, "tier": tier, "seed": batch_seed, "level": mod.LEVEL,
          "coverage": cov, "assumptions": getattr(mod, "ASSUMPTIONS", []),
          "wall_s": round(total_wall, 2), "violations": len(reported) + len(rbad)}
    os.makedirs(os.path.join(VERIF, "evidence"), exist_ok=True)
    evp = os.path.join(VERIF, "evidence", "%s.json" % pid)
    if os.environ.get("VERIF_NO_EVIDENCE"):
        # sensitivity runs against a scratch copy must not overwrite the evidence of /repo
        evp = os.path.join(tempfile.gettempdir(), "vevidence_%s_%d.json" % (pid, os.getpid()))
    with open(evp, "w") as fp:
        json.dump(ev, fp, indent=1, sort_keys=True, default=str)
    try:
        import jsonschema
        with open("/root/.vp/EVIDENCE.schema.json") as fp:
            schema = json.load(fp)
        jsonschema.validate(ev, schema)
    except ImportError:
        pass
    except FileNotFoundError:
        pass
    except Exception as e:
        say("HARNESS-ERROR property=%s evidence does not validate: %s" % (pid, str(e)[:500]))
        if exit_code == 0:
            exit_code = 2
    say("%s: runs=%d evaluations=%d distinct=%d violations=%d known=%d errors=%d wall=%.1fs exit=%d" % (
        pid, len(results), evaluations, len(sigs), len(reported),
        known_seen + suppressed, len(errs), total_wall, exit_code))
    return exit_code

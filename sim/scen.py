"""Scenario generation shared by the rand-object properties: a scenario is a
program, a population of parties and an op list, all derived from one seed."""
from . import kernel, progs, refsem
from .progs import Gen

WIDE = [5, 7, 8, 9, 13, 16, 17, 24, 31, 32, 33, 48, 63, 64]


def swarm_cfg(rng, small):
    cfg = {}
    if small:
        cfg["widths"] = rng.choice([[1, 2, 3], [2, 3, 4], [1, 2, 3, 4], [3, 4], [4]])
        cfg["max_fields"] = rng.choice([2, 3, 3, 4])
    else:
        k = rng.randint(1, 4)
        cfg["widths"] = rng.sample(WIDE, k) + rng.sample([1, 2, 3, 4], rng.randint(0, 2))
        cfg["max_fields"] = rng.choice([2, 3, 4, 5, 6])
        cfg["wide_lits"] = rng.random() < 0.5
    cfg["signed"] = rng.random() < 0.75
    cfg["enums"] = rng.random() < 0.35
    cfg["nonrand"] = rng.random() < 0.7
    cfg["depth"] = rng.choice([1, 2, 2, 3])
    kinds = ["expr", "expr", "expr"]
    for k, p in (("if", 0.6), ("implies", 0.5), ("in", 0.6), ("unique", 0.35)):
        if rng.random() < p:
            kinds.append(k)
    cfg["stmts"] = kinds
    ar = ["+", "-"]
    for op, p in (("*", 0.4), ("&", 0.4), ("|", 0.4), ("^", 0.3)):
        if rng.random() < p:
            ar.append(op)
    if max(cfg["widths"]) > 16:
        # wide multiplications / divisions make single solves take minutes
        ar = [o for o in ar if o != "*"]
    cfg["arith"] = ar
    cfg["ps"] = rng.random() < 0.5
    cfg["shifts"] = rng.random() < 0.4
    cfg["divmod"] = rng.random() < 0.3 and max(cfg["widths"]) <= 16
    cfg["max_blocks"] = rng.choice([1, 2, 2, 3])
    cfg["max_stmts"] = rng.choice([2, 3, 4, 5])
    return cfg


def rand_domain_size(prog, cname):
    P = refsem.Prog(prog)
    n = 1
    for f in P.fields(cname):
        if f["k"] == "s" and f.get("r"):
            n *= 1 << f["w"]
        elif f["k"] == "e" and f.get("r"):
            n *= len(P.enum_values(f["en"]))
    return n


def flat_program(st, small, extra_cfg=None):
    rng = st.prog
    cfg = swarm_cfg(rng, small)
    if extra_cfg:
        cfg.update(extra_cfg)
    g = Gen(rng, cfg)
    enums = g.enum_defs(rng.randint(1, 2)) if cfg["enums"] else []
    c = g.flat_class("K0", enums)
    prog = {"enums": enums, "classes": [progs.strip(c)]}
    return prog, g, cfg


def nonrand_fields(prog, cname):
    P = refsem.Prog(prog)
    return [f for f in P.fields(cname) if f["k"] in ("s", "e") and not f.get("r")]


def history_ops(st, prog, g, n_parties, n_ops, mix=None, cname="K0"):
    """generic call history over parties of class K0"""
    rng = st.ops
    P = refsem.Prog(prog)
    cdef = P.cls(cname)
    enums = prog.get("enums", [])
    edefs = {e["name"]: e for e in enums}
    nr = nonrand_fields(prog, cname)
    ops = []
    for p in range(n_parties):
        ops.append({"op": "new", "cls": cname})
        ops.append({"op": "seed", "p": p, "k": st.lib.randint(0, 1 << 30)})
    mix = mix or {"randomize": 50, "rw": 25, "assign": 15, "seed": 4, "frand": 6}
    kinds = [k for k, w in sorted(mix.items()) for _ in range(w)]
    gi = Gen(st.ops, g.cfg)
    for _ in range(n_ops):
        k = rng.choice(kinds)
        p = rng.randrange(n_parties)
        if k == "randomize":
            ops.append({"op": "randomize", "p": p})
        elif k == "rw":
            ops.append({"op": "rw", "p": p,
                        "inline": progs.strip(gi.inline_stmts(cdef, enums))})
        elif k == "assign" and nr:
            f = rng.choice(nr)
            ops.append({"op": "assign", "p": p, "path": [f["n"]],
                        "v": gi.in_range_value(f, edefs)})
        elif k == "seed":
            ops.append({"op": "seed", "p": p, "k": st.lib.randint(0, 1 << 30)})
        elif k == "frand":
            ops.append({"op": "frand", "targets": [[p, []]],
                        "k": st.lib.randint(0, 1 << 30)})
        else:
            ops.append({"op": "randomize", "p": p})
    return ops


def op_sig(ops):
    kinds = [o["op"] for o in ops]
    grams = sorted(set(zip(kinds, kinds[1:], kinds[2:])))
    return kernel.digest(grams)[:12]


# ---------------------------------------------------------------------------
# composite (tree) scenarios
# ---------------------------------------------------------------------------
def tree_program(st, feats=None, cfg=None, rng=None):
    rng = rng or st.prog
    c = {"widths": rng.choice([[1, 2, 3], [2, 3], [2, 3, 4], [1, 2]]),
         "max_blocks": rng.choice([1, 2, 2]), "max_stmts": rng.choice([2, 3, 4]),
         "depth": rng.choice([1, 1, 2]), "signed": rng.random() < 0.6,
         "nonrand": rng.random() < 0.7, "ps": rng.random() < 0.4,
         "shifts": rng.random() < 0.3, "divmod": rng.random() < 0.2}
    kinds = ["expr", "expr", "expr"]
    for k, p in (("if", 0.5), ("implies", 0.4), ("in", 0.6), ("unique", 0.3)):
        if rng.random() < p:
            kinds.append(k)
    c["stmts"] = kinds
    ar = ["+", "-"]
    for op, p in (("*", 0.3), ("&", 0.3), ("|", 0.3), ("^", 0.3)):
        if rng.random() < p:
            ar.append(op)
    c["arith"] = ar
    if cfg:
        c.update(cfg)
    f = {"depth": rng.choice([1, 2, 2, 3]), "fanout": rng.choice([1, 2]),
         "lists": rng.random() < 0.7, "objlists": rng.random() < 0.6,
         "nonrand_sub": rng.random() < 0.6, "foreach": rng.random() < 0.8,
         "agg": rng.random() < 0.7, "cross": rng.random() < 0.85, "enums": False}
    if feats:
        f.update(feats)
    g = progs.TreeGen(rng, c, f)
    prog = g.tree_program()
    return prog, g


def solve_order_program(rng, name="S0"):
    """small class using solve_order (a construction that needs an idle,
    depth-1 constraint scope stack)"""
    wa, wb = rng.choice([2, 3]), rng.choice([2, 3, 4])
    k = rng.randint(1, (1 << wa) - 1)
    return {"enums": [], "top": name, "classes": [{
        "name": name,
        "fields": [{"n": "a", "k": "s", "w": wa, "s": False, "r": True, "i": 0},
                   {"n": "b", "k": "s", "w": wb, "s": False, "r": True, "i": 0}],
        "blocks": [{"n": "c", "stmts": [
            {"t": "solve_order", "before": [["a"]], "after": [["b"]]},
            {"t": "implies", "c": progs.BIN("==", progs.F("a"), progs.LIT(k)),
             "body": [progs.EXPR(progs.BIN("<", progs.F("b"), progs.LIT(2)))]}]}]}]}


def norm_values(prog, cname, tree, rng):
    """in-range value for every scalar path of a tree (normalising prefix)"""
    P = refsem.Prog(prog)
    out = []
    for p in refsem.all_scalar_paths(P, cname, tree):
        dom = refsem.path_domain(P, cname, p)
        out.append((p, dom[rng.randrange(len(dom))]))
    return out


def dist_entries(rng, w, signed=False, allow_zero=True):
    lo, hi = (-(1 << (w - 1)), (1 << (w - 1)) - 1) if signed else (0, (1 << w) - 1)
    n = rng.randint(2, 5)
    pts = sorted(rng.sample(range(lo, hi + 1), min(hi - lo + 1, 2 * n)))
    ents = []
    i = 0
    while i < len(pts) and len(ents) < n:
        if i + 1 < len(pts) and rng.random() < 0.4:
            ents.append({"v": [pts[i], pts[i + 1]], "w": rng.choice([1, 2, 3, 5, 8])})
            i += 2
        else:
            ents.append({"v": pts[i], "w": rng.choice([1, 2, 3, 5, 8])})
            i += 1
    if allow_zero and len(ents) >= 2 and rng.random() < 0.6:
        ents[rng.randrange(len(ents))]["w"] = 0
    if all(e["w"] == 0 for e in ents):
        ents[0]["w"] = 1
    return ents


def mixed_program(st, small=True):
    """program of one of several kinds (flat / object tree / lists / flat with dist and
    solve_order); returns (prog, generator, top class name)"""
    rng = st.prog
    kind = rng.choice(["flat", "flat", "tree", "list", "order", "order"])
    if kind == "tree":
        prog, g = tree_program(st, cfg={"loose": 0.7, "max_stmts": 2})
        return prog, g, prog["top"], kind
    if kind == "list":
        cfg = {"widths": [2, 3], "signed": rng.random() < 0.5, "depth": 1, "max_stmts": 3, "max_blocks": 2,
               "ps": False, "shifts": False, "divmod": False, "arith": ["+", "-"],
               "stmts": ["expr", "expr", "in"], "nonrand": True}
        g = progs.ListGen(rng, cfg)
        prog = g.list_program(gates=("randsz-aggregate",))
        return prog, g, "K0", kind
    prog, g, cfg = flat_program(st, small, {"enums": rng.random() < 0.3})
    prog["top"] = "K0"
    if kind == "order":
        k0 = prog["classes"][0]
        rf = [f for f in k0["fields"] if f["k"] == "s" and f.get("r")]
        stmts = []
        if len(rf) >= 2:
            a, b = rng.sample(rf, 2)
            stmts.append({"t": "solve_order", "before": [[a["n"]]], "after": [[b["n"]]]})
            if len(rf) >= 3 and rng.random() < 0.5:
                c = [f for f in rf if f is not a and f is not b][0]
                stmts.append({"t": "solve_order", "before": [[b["n"]]], "after": [[c["n"]]]})
        if rf and rng.random() < 0.8:
            f = rng.choice(rf)
            if f["w"] <= 8:
                stmts.append({"t": "dist", "e": progs.F(f["n"]), "w": dist_entries(rng, f["w"], f["s"])})
        if stmts:
            k0["blocks"].insert(0, {"n": "c_ord", "stmts": stmts})
    return prog, g, "K0", kind



def prefer_sat(st, build, top_of, attempts=6, p_free=0.2, tries=150):
    """Generation-time bias: most programs should have at least one solution in the shape
    they are constructed in, otherwise every call of the run fails and nothing but the
    failure path is exercised.  build(rng) -> tuple whose first item is the program;
    top_of(tuple) -> name of the class that is randomized.  A fifth of the runs keep the
    unfiltered generator (unsatisfiable class constraints are part of the input space)."""
    import random as _random
    from . import kernel as _k
    if st.prog.random() < p_free:
        return build(st.prog)
    out = None
    for a in range(attempts):
        out = build(_random.Random(_k.H(st.seed, "prefer_sat", a)))
        if refsem.sample_sat(out[0], top_of(out), _random.Random(_k.H(st.seed, "sat_probe", a)), tries):
            break
    return out

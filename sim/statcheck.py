"""Exact binomial tail bounds for the frequency oracles (C15, C20).

A frequency test fails only if the exact two-sided binomial tail probability of
the observed count is below ALPHA_EACH.  ALPHA_EACH = FAMILY / MAX_TESTS, so
that for any VERIF_SEED the probability that an unchanged, correct tree raises
an alarm in one check invocation is below FAMILY (Bonferroni).
"""
import math

FAMILY = 1e-9
MAX_TESTS = 1_000_000          # upper bound on binomial tests per check invocation
ALPHA_EACH = FAMILY / MAX_TESTS


def _logpmf(k, n, p):
    if p <= 0.0:
        return 0.0 if k == 0 else -math.inf
    if p >= 1.0:
        return 0.0 if k == n else -math.inf
    return (math.lgamma(n + 1) - math.lgamma(k + 1) - math.lgamma(n - k + 1)
            + k * math.log(p) + (n - k) * math.log1p(-p))


def tail_le(k, n, p):
    """P(X <= k)"""
    if k < 0:
        return 0.0
    if k >= n:
        return 1.0
    mean = n * p
    if k >= mean:
        return 1.0 - tail_ge(k + 1, n, p)
    s = 0.0
    i = k
    while i >= 0:
        t = math.exp(_logpmf(i, n, p))
        s += t
        if t < s * 1e-18:
            break
        i -= 1
    return min(1.0, s)


def tail_ge(k, n, p):
    """P(X >= k)"""
    if k <= 0:
        return 1.0
    if k > n:
        return 0.0
    mean = n * p
    if k <= mean:
        return 1.0 - tail_le(k - 1, n, p)
    s = 0.0
    i = k
    while i <= n:
        t = math.exp(_logpmf(i, n, p))
        s += t
        if t < s * 1e-18:
            break
        i += 1
    return min(1.0, s)


def binom_ok(k, n, p, alpha=ALPHA_EACH):
    """(ok, tail probability) - ok is False only if the exact two-sided tail
    of k successes in n trials with probability p is below alpha"""
    if n == 0:
        return True, 1.0
    sd = math.sqrt(max(n * p * (1 - p), 1e-12))
    z = abs(k - n * p) / sd
    if z < 5.5 and 0 < p < 1 and n * p > 20 and n * (1 - p) > 20:
        return True, None           # cannot possibly be below alpha; skip the exact sum
    t = 2.0 * min(tail_le(k, n, p), tail_ge(k, n, p))
    t = min(1.0, t)
    return (t >= alpha), t


def sigma(k, n, p):
    sd = math.sqrt(max(n * p * (1 - p), 1e-12))
    return (k - n * p) / sd

"""Worker: one fresh interpreter (one PYTHONHASHSEED, one environment) that
imports pyvsc once and fork()s one child per run.  The child executes the run
on pristine post-import library state, writes its result as one JSON document
on a pipe and exits; nothing a run does can leak into the next.

usage: worker.py <prop id> <tier> <chunk file>     (results: JSON lines on stdout)
"""
import json
import os
import select
import signal
import sys
import time
import traceback

HERE = os.path.dirname(os.path.abspath(__file__))
sys.path.insert(0, os.path.dirname(HERE))

RUN_TIMEOUT = float(os.environ.get("VERIF_RUN_TIMEOUT", "300"))


def _child(mod, item, tier, wfd):
    res = {"i": item.get("i", 0), "seed": item.get("seed", 0)}
    try:
        # library chatter (diagnostics, debug prints) goes to the sink
        devnull = os.open(os.devnull, os.O_WRONLY)
        os.dup2(devnull, 1)
        if not os.environ.get("VERIF_KEEP_STDERR"):
            os.dup2(devnull, 2)
        t0 = time.time()
        # the simulator owns the global random module: a run that reaches it without seeding it
        # itself (e.g. after the minimiser deleted a 'seed' op) is still a function of its record
        import random as _random
        _random.seed(12345)
        rec = item.get("record")
        if rec is None:
            rec = mod.generate(item["seed"], tier)
        out = mod.execute(rec)
        res.update(out)
        res["ms"] = int((time.time() - t0) * 1000)
        if item.get("want_record"):
            res["record"] = rec
    except BaseException as e:      # harness error, never a verdict
        res["err"] = "%s: %s\n%s" % (type(e).__name__, e, traceback.format_exc())
    data = json.dumps(res, default=str).encode()
    off = 0
    while off < len(data):
        off += os.write(wfd, data[off:off + 65536])
    os.close(wfd)
    os._exit(0)


def run_item(mod, item, tier):
    rfd, wfd = os.pipe()
    pid = os.fork()
    if pid == 0:
        os.close(rfd)
        try:
            _child(mod, item, tier, wfd)
        finally:
            os._exit(3)
    os.close(wfd)
    chunks = []
    deadline = time.time() + RUN_TIMEOUT
    timed_out = False
    while True:
        left = deadline - time.time()
        if left <= 0:
            timed_out = True
            break
        r, _, _ = select.select([rfd], [], [], left)
        if not r:
            timed_out = True
            break
        b = os.read(rfd, 1 << 20)
        if not b:
            break
        chunks.append(b)
    os.close(rfd)
    if timed_out:
        try:
            os.kill(pid, signal.SIGKILL)
        except OSError:
            pass
    _, status = os.waitpid(pid, 0)
    base = {"i": item.get("i", 0), "seed": item.get("seed", 0)}
    if timed_out:
        base["err"] = "timeout after %ss" % RUN_TIMEOUT
        return base
    try:
        return json.loads(b"".join(chunks).decode())
    except Exception:
        base["err"] = "child died (status %s) without a result" % status
        return base


def main():
    pid, tier, chunk_file = sys.argv[1], sys.argv[2], sys.argv[3]
    import importlib
    mod = importlib.import_module("sim.props." + pid.lower())
    if hasattr(mod, "preload"):
        mod.preload()
    with open(chunk_file) as fp:
        items = json.load(fp)
    out = sys.stdout
    for item in items:
        res = run_item(mod, item, tier)
        out.write(json.dumps(res, default=str) + "\n")
        out.flush()


if __name__ == "__main__":
    main()

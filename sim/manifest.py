"""Generates /verif/MANIFEST.json from the property modules that exist.
usage: /venv/bin/python -m sim.manifest   (from /verif)  or  bin/mkmanifest"""
import importlib
import json
import os
import sys

VERIF = os.path.dirname(os.path.dirname(os.path.abspath(__file__)))
sys.path.insert(0, VERIF)

NOT_APPLICABLE = {
    "C18": "pure function of (width, signedness, value, access path): no state beyond the one value "
           "written, no schedule, clock, party or fault to simulate; deciding it is bounded input "
           "enumeration, which is not this technique (DESIGN.md section 7)",
    "C19": "pure function of (wildcard pattern, sample value); bin expansion is a pure function of the "
           "pattern; no schedule, seam or fault exists for it (DESIGN.md section 7)",
}

BASELINE_OFF = ("cd /repo && env -u PYVSC_VERIF /venv/bin/python -m pytest -ra -q -p no:cacheprovider "
                "--timeout=900 --continue-on-collection-errors")


def main():
    props = []
    with open(os.path.join(VERIF, "properties.jsonl")) as fp:
        for line in fp:
            if line.strip():
                props.append(json.loads(line))
    checks = []
    na = []
    served = []
    for p in props:
        pid = p["id"]
        path = os.path.join(VERIF, "sim", "props", pid.lower() + ".py")
        if not os.path.exists(path):
            reason = NOT_APPLICABLE.get(pid, "check not built yet (in progress); not claimed")
            na.append({"property_id": pid, "reason": reason})
            continue
        mod = importlib.import_module("sim.props." + pid.lower())
        served.append(pid)
        checks.append({
            "property_id": pid,
            "quick_cmd": "bin/vcheck %s --tier quick" % pid,
            "thorough_cmd": "bin/vcheck %s --tier thorough" % pid,
            "evidence_file": "evidence/%s.json" % pid,
            "replay_cmd_template": "bin/vcheck %s --replay {path}" % pid,
            "engine": "vscsim",
            "level_claimed": {
                "category": mod.LEVEL,
                "text": getattr(mod, "LEVEL_TEXT", None) or (
                    "seeded search over simulated API-call schedules, populations and faults with "
                    "reference-model oracles; a clean batch is evidence, not proof"),
                "design_ref": "DESIGN.md section 6, " + pid,
            },
            "level_note": "; ".join(getattr(mod, "ASSUMPTIONS", [])) or "see DESIGN.md",
            "technique": getattr(mod, "TECHNIQUE", "deterministic simulation with fault injection "
                                 "(seeded schedule/fault search, reference-model oracle)"),
        })
    man = {
        "version": 1,
        "setup_cmd": "/venv/bin/python -m compileall -q /verif/sim && /verif/bin/vcheck selftest --smoke",
        "hooks": {
            "guard": "PYVSC_VERIF",
            "enable": "environment variable PYVSC_VERIF=1 set by the checks before pyvsc is imported; "
                      "checks import /repo/src (or $VERIF_REPO_SRC) directly, nothing is built",
            "baseline_off_cmd": BASELINE_OFF,
            "source_commits": _hook_commits(),
            "add_only": True,
        },
        "engines": [{
            "name": "vscsim",
            "path": "sim",
            "serves_properties": served,
            "kind_free_text": "seeded deterministic simulation of API-call schedules over live pyvsc "
                              "objects with callback / forced-unsat / stream / clock faults; one fresh "
                              "interpreter per PYTHONHASHSEED, fork per run, op-record replay + ddmin",
        }],
        "checks": checks,
        "not_applicable": na,
        "notes": "See DESIGN.md. Exit 2 from a check is a harness error (never a verdict). "
                 "known_findings.json lists genuine defects recorded rather than repaired and the "
                 "fix: commits made in /repo.",
    }
    with open(os.path.join(VERIF, "MANIFEST.json"), "w") as fp:
        json.dump(man, fp, indent=1)
        fp.write("\n")
    try:
        import jsonschema
        with open("/root/.vp/MANIFEST.schema.json") as fp:
            jsonschema.validate(man, json.load(fp))
        print("MANIFEST.json valid: %d checks, %d not_applicable" % (len(checks), len(na)))
    except ImportError:
        print("MANIFEST.json written (jsonschema not available)")


def _hook_commits():
    p = os.path.join(VERIF, "hook_commits.txt")
    if os.path.exists(p):
        return [l.strip() for l in open(p) if l.strip()]
    return []


if __name__ == "__main__":
    main()

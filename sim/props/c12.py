"""C12 - instance and type coverage aggregate consistently and stay within 0..100."""
from .. import covcheck, covgen, kernel
from ..kernel import Streams
from . import c10

ID = "C12"
LEVEL = "exploration"
RULE = ("one run = 1-2 generated covergroup classes, some parameterised so that instances fall into "
        "different shapes (constructor variant), with at_least / weight options on coverpoints, crosses "
        "and the covergroup; 1-5 instances per class created in scheduler order (also between samples); "
        "20-120 samples interleaved across instances. After every op: instance hits = own samples only; "
        "type hits = bin-wise sum over same-shape instances; different shapes form separate types; "
        "get_coverage / get_inst_coverage of covergroups, coverpoints and crosses equal the reference "
        "formula (share of bins with hits >= at_least, weighted mean over items), lie in [0,100], never "
        "decrease, are 100 exactly when every bin is covered. Non-trivial = >= 2 instances of one shape "
        "sampled with different values; distinct = distinct (program, creation order, option profile).")
REAL = ["pyvsc coverage model and registry (coverage_registry.py, covergroup_model.py, coverpoint_model.py, "
        "coverpoint_cross_model.py, options)"]
STUB = ["user code (generated covergroup classes)", "stdout (sink)"]
ASSUMPTIONS = ["reference coverage formula is the one stated by the property (at_least threshold, weights)"]
REQUIRED_NONZERO = {"*": ["samples", "cov_checks", "second_shapes", "at_least_items", "weight_items",
                          "instances"]}


def budget(tier):
    if tier == "thorough":
        return {"runs": 8000, "wall": 3000}
    return {"runs": 960, "wall": 600}


def generate(seed, tier):
    st = Streams(seed)
    rng = st.prog
    f = {"iff": rng.random() < 0.4, "cross": rng.random() < 0.6, "ignore": rng.random() < 0.3,
         "opts": True, "enums": rng.random() < 0.2, "variants": True, "fn_target": False}
    prog = covgen.gen_program(rng, f, rng.choice([1, 1, 2]))
    orng = st.ops
    ops = []
    insts = []
    for cg in prog["cgs"]:
        for _ in range(orng.randint(1, 3)):
            insts.append(cg)
            ops.append({"op": "new_cg", "cls": cg["name"], "variant": orng.randrange(len(cg["variants"]))})
    orng.shuffle(ops)
    order = [o["cls"] for o in ops]
    cgd = {c["name"]: c for c in prog["cgs"]}
    n = orng.randint(20, 120 if tier == "quick" else 400)
    pending = orng.randint(0, 2)
    for _ in range(n):
        if pending and orng.random() < 0.05:
            cg = orng.choice(prog["cgs"])
            ops.append({"op": "new_cg", "cls": cg["name"], "variant": orng.randrange(len(cg["variants"]))})
            order.append(cg["name"])
            pending -= 1
            continue
        i = orng.randrange(len(order))
        ops.append({"op": "sample", "i": i, "vals": covgen.sample_values(orng, cgd[order[i]], prog["enums"])})
        if orng.random() < 0.1:
            ops.append({"op": "get_cov"})
    return {"prop": ID, "seed": seed, "prog": prog, "ops": ops}


sample = c10.sample
shrink = c10.shrink
tags = c10.tags


def execute(rec):
    viol, stats, obs, clock = covcheck.execute_cov(rec, ID)
    out = c10.finish(rec, viol, stats, obs, clock, ID)
    out["sigs"] = [kernel.digest([rec["prog"], [o.get("cls") for o in rec["ops"] if o["op"] == "new_cg"]])[:16]] \
        if stats["instances"] >= 2 else []
    return out

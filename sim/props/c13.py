"""C13 - coverage reports and saved databases equal the in-memory coverage."""
from .. import covcheck, covgen, kernel
from ..kernel import Streams
from . import c10, c12

ID = "C13"
LEVEL = "fault_enumeration"
LEVEL_TEXT = ("report / save calls are placed at seeded points of sampled coverage histories; for every "
              "save the stream fault sites (write failing after k characters for k in {0, 1, middle, "
              "len-1, random}, close failing, silently torn write) are enumerated, one simulated save "
              "per site, on an in-memory SimFile; clock jumps between saves")
RULE = ("one run = a C12-style history (1-2 classes, parameterised variants, 1-5 instances, options) "
        "with report / save ops at scheduler-chosen points: get_coverage_report_model(), "
        "get_coverage_report(details=True), report_coverage(stream), write_coverage_db(SimFile) then "
        "XmlFactory.read of what reached the simulated disk. Oracles: every type, instance, coverpoint, "
        "cross, bin (regular / ignore / illegal) present with the in-memory name and count; percentages "
        "equal get_coverage()/get_inst_coverage(); read-back of a completed save equals memory; a full "
        "state digest (hit lists, caches, unhit sets, registry) is identical before and after every "
        "report / save, successful or failed; after each injected I/O fault the error propagates, state "
        "is unchanged, sampling continues correctly and a later fault-free save (with the simulated "
        "clock jumped) carries identical coverage data. evaluations = oracle evaluations; distinct = "
        "distinct (program, op-kind profile).")
REAL = ["pyvsc report/save path (vsc/__init__.py, coverage_save_visitor.py, registry, models)",
        "PyUCIS MemFactory / XmlWriter / XmlReader / CoverageReportBuilder / TextCoverageReportFormatter"]
STUB = ["disk (SimFile in-memory stream with fault script)", "wall clock (ucis_Time patched to SimClock; "
        "XML writtenTime/date excluded by name)", "user code (generated)"]
ASSUMPTIONS = ["PyUCIS is part of the trusted rendering path; only pyvsc changes are in scope",
               "write_coverage_db is exercised through its file-object form"]
REQUIRED_NONZERO = {"*": ["reports", "saves", "readbacks", "faults_fired.io_error",
                          "faults_fired.close_error", "fault_sites_enumerated", "digest_checks",
                          "clock_jumps"]}


def budget(tier):
    if tier == "thorough":
        return {"runs": 3000, "wall": 3000}
    return {"runs": 320, "wall": 600}


def generate(seed, tier):
    rec = c12.generate(seed, "quick")
    st = Streams(kernel.H(seed, "c13"))
    rng = st.ops
    ops = []
    # in half of the runs the early instances use the first constructor variant only, so that a
    # later instance (created after a report / save) introduces a new shape of a known class
    hold_back = rng.random() < 0.5
    if hold_back:
        for op in rec["ops"]:
            if op["op"] == "new_cg":
                op["variant"] = 0
    for op in rec["ops"]:
        ops.append(op)
        if op["op"] == "sample" and rng.random() < 0.06:
            r = rng.random()
            if r < 0.35:
                ops.append({"op": "report", "kind": rng.choice(["model", "text", "stream"]),
                            "details": rng.random() < 0.7})
            elif r < 0.8:
                ops.append({"op": "save", "n_sites": 7 if tier == "quick" else 16,
                            "site_seed": rng.randint(0, 1 << 30),
                            "dt": rng.choice([86400.0, -3600.0, 0.0, 1e6])})
            else:
                ops.append({"op": "clock", "dt": rng.choice([3600.0, -7200.0, 1e5]),
                            "freeze": rng.random() < 0.3})
            if rng.random() < 0.35:
                # a new instance (possibly a new shape of an already registered class) right after
                # a report / save: later reports must contain it
                cg = rng.choice(rec["prog"]["cgs"])
                nv = len(cg["variants"])
                var = rng.randrange(nv) if not (hold_back and nv > 1) else rng.randrange(1, nv)
                ops.append({"op": "new_cg", "cls": cg["name"], "variant": var, "late": True})
    ops.append({"op": "report", "kind": "model"})
    ops.append({"op": "clock", "dt": -86400.0})
    ops.append({"op": "save", "n_sites": 7, "site_seed": rng.randint(0, 1 << 30)})
    ops.append({"op": "report", "kind": "text", "details": True})
    # renumber instance indices: late instances shift the creation order
    cgd = {c["name"]: c for c in rec["prog"]["cgs"]}
    mapping, out, n_new, n_orig = {}, [], 0, 0
    for op in ops:
        op = dict(op)
        if op["op"] == "new_cg":
            if not op.get("late"):
                mapping[n_orig] = n_new
                n_orig += 1
                out.append(op)
            else:
                out.append(op)
                for _ in range(rng.randint(0, 2)):
                    out.append({"op": "sample", "i": n_new, "late": True,
                                "vals": covgen.sample_values(rng, cgd[op["cls"]], rec["prog"]["enums"])})
            n_new += 1
            continue
        if op["op"] in ("sample", "query") and not op.get("late"):
            if op["i"] not in mapping:
                continue
            op["i"] = mapping[op["i"]]
        out.append(op)
    rec["ops"] = out
    rec["prop"] = ID
    return rec


sample = c10.sample
shrink = c10.shrink
tags = c10.tags


def execute(rec):
    viol, stats, obs, clock = covcheck.execute_cov(rec, ID)
    out = c10.finish(rec, viol, stats, obs, clock, ID)
    prof = sorted(set((o["op"], o.get("kind")) for o in rec["ops"] if o["op"] in ("report", "save", "clock")))
    out["sigs"] = [kernel.digest([rec["prog"], prof])[:16]]
    return out

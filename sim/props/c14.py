"""C14 - no legal value is starved: inferred value ranges over-approximate the solutions."""
import random as _r

from .. import kernel, progs, refsem, scen
from ..kernel import Streams

ID = "C14"
LEVEL = "exploration"
RULE = ("one run = a small-domain program (random scalar fields of width <= 4, non-random fields, "
        "enums) with a 6-20 op history (randomize, randomize_with, non-random assignments, forced "
        "failures) that leaves arbitrary previous values in the fields; at sampled plain randomize() "
        "calls the observation hook (PYVSC_VERIF=1) captures the bound map the call actually used, and "
        "the feasible set of every random field is obtained evaluator-free by pin-probing field == v "
        "for every v of its type. Oracle: every feasible v lies in the captured ranges; a field no "
        "constraint mentions has the full type range. Non-trivial = a judged call where some field's "
        "captured range is a proper subset of its type; distinct = (program shape, op 3-grams)."
        " randomize_with calls are judged too (feasibility probes carry the inline block); relational bounds computed from non-random fields; dynamic blocks referenced below inline if/implies.")
REAL = ["pyvsc (all of src/vsc)", "PyBoolector"]
STUB = ["user code (generated)", "stdout (sink)"]
ASSUMPTIONS = ["the hook observes VariableBoundVisitor.bound_m immediately before the solve; it never "
               "touches the solver (hook-on/off traces are equal, see selftest)",
               "feasibility by pin-probe is exact (C01/C02 validate pin-probes)"]
REQUIRED_NONZERO = {"*": ["judged_calls", "fields_judged", "narrowed_fields", "feasible_probes"]}
TECHNIQUE = ("deterministic simulation (seeded API-call histories) with a guarded observation hook; "
             "feasibility oracle by exhaustive pin-probes through the public API")


def budget(tier):
    if tier == "thorough":
        return {"runs": 3000, "wall": 3000}
    return {"runs": 1280, "wall": 600}


def generate(seed, tier):
    st = Streams(seed)
    prog, g, cfg = scen.flat_program(st, True, {"enums": st.prog.random() < 0.3})
    tries = 0
    while scen.rand_domain_size(prog, "K0") > 4096 and tries < 10:
        st2 = Streams(kernel.H(seed, "retry", tries))
        prog, g, cfg = scen.flat_program(st2, True, {"max_fields": 3})
        tries += 1
    # bounds-specific shapes: a multi-interval 'in' domain with relational bounds that touch
    # interval ends, and range lists whose bounds are non-random fields (re-assigned between calls)
    rng = st.prog
    k0 = prog["classes"][0]
    rf = [f for f in k0["fields"] if f["k"] == "s" and f.get("r") and not f["s"] and f["w"] >= 3]
    if rf and rng.random() < 0.6:
        f = rng.choice(rf)
        hi = (1 << f["w"]) - 1
        cuts = sorted(rng.sample(range(0, hi + 1), min(hi + 1, rng.choice([4, 6, 8]))))
        ranges = [[cuts[i], cuts[i + 1]] for i in range(0, len(cuts) - 1, 2) if cuts[i + 1] > cuts[i]]
        ranges = [r for j, r in enumerate(ranges) if j == 0 or r[0] > ranges[j - 1][1] + 1]
        stmts = []
        if ranges:
            stmts.append(progs.EXPR({"t": "in", "e": progs.F(f["n"]), "rl": ranges}))
            ends = [x for r in ranges for x in r]
            for _ in range(rng.randint(1, 2)):
                v = rng.choice(ends)
                op, lit = rng.choice([(">=", v), (">", v - 1), ("<=", v), ("<", v + 1)])
                if 0 <= lit <= hi + 1:
                    stmts.append(progs.EXPR(progs.BIN(op, progs.F(f["n"]), progs.LIT(lit))))
        if stmts:
            k0["blocks"].append({"n": "cb", "stmts": stmts})
    nrf = [f for f in k0["fields"] if f["k"] == "s" and not f.get("r") and not f["s"]]
    rf2 = [f for f in k0["fields"] if f["k"] == "s" and f.get("r") and not f["s"]]
    if nrf and rf2 and rng.random() < 0.6:
        f = rng.choice(rf2)
        kf = rng.choice(nrf)
        hi = (1 << f["w"]) - 1
        items = [[{"t": "f", "p": [kf["n"]]}, rng.randint(0, hi)]] if rng.random() < 0.6 else \
            [{"t": "f", "p": [kf["n"]]}, rng.randint(0, hi)]
        k0["blocks"].append({"n": "cw", "stmts": [progs.EXPR({"t": "in", "e": progs.F(f["n"]), "rl": items})]})
    if nrf and rf2 and rng.random() < 0.5:
        # relational bound computed from a non-random field: 'a <= k - c' / 'a >= k + c', where
        # the arithmetic leaves a's type (negative, or beyond its maximum) for some values of k
        f = rng.choice(rf2)
        kf = rng.choice(nrf)
        c = rng.randint(1, (1 << max(f["w"], kf["w"])))
        bound = progs.BIN(rng.choice(["-", "+"]), progs.F(kf["n"]), progs.LIT(c))
        k0["blocks"].append({"n": "ck", "stmts": [progs.EXPR(progs.BIN(
            rng.choice(["<=", "<", ">=", ">"]), progs.F(f["n"]), bound))]})
    n_parties = st.ops.choice([1, 1, 2])
    n_ops = st.ops.randint(6, 20 if tier == "quick" else 40)
    ops = scen.history_ops(st, prog, g, n_parties, n_ops,
                           mix={"randomize": 50, "rw": 20, "assign": 25, "seed": 5})
    rfa = [f for f in k0["fields"] if f["k"] == "s" and f.get("r")]
    if rfa and rng.random() < 0.4:
        # a dynamic block referenced below a condition of an inline block: what it says about a
        # field's range only holds where the condition does
        own_ = progs.fields_with_paths(k0)[0]
        k0["blocks"].append({"n": "dz", "dyn": True, "stmts": progs.strip(
            [progs.simple_stmt(rng, [f_ for f_ in own_ if f_.get("r")] or own_) for _ in range(rng.randint(1, 2))])})
        gi = progs.Gen(st.ops, cfg)
        for o in ops:
            if o["op"] == "rw" and st.ops.random() < 0.7:
                cond = gi.bool_expr(own_, 1)
                ref = progs.EXPR({"t": "dynref", "n": "dz", "p": []})
                o["inline"] = list(o.get("inline") or []) + [progs.strip(
                    {"t": "if", "c": cond, "then": [ref], "elifs": [], "else": None}
                    if st.ops.random() < 0.5 else {"t": "implies", "c": cond, "body": [ref]})]
    return {"prop": ID, "seed": seed, "prog": prog, "ops": ops,
            "probe_seed": st.fault.randint(0, 1 << 30)}


def sample(rec):
    return {"seed": rec["seed"], "prog": rec["prog"], "ops": rec["ops"][:10], "n_ops": len(rec["ops"])}


def shrink(rec):
    return progs.shrink_record(rec, limit=150)


def tags(rec, viol):
    d = viol.get("detail", {})
    return list(d.get("features", []))


def features(prog, path):
    """coarse shape features of the statements mentioning the field (for known-finding matching)"""
    P = refsem.Prog(prog)
    name = path[0]
    f = P.field("K0", name)
    feats = set()
    feats.add("signed-field" if f.get("s") else "unsigned-field")

    def refs(e, out):
        if isinstance(e, dict):
            if e.get("t") in ("f", "ps"):
                out.append(e)
            for v in e.values():
                refs(v, out)
        elif isinstance(e, list):
            for v in e:
                refs(v, out)

    def walk(stmts, depth):
        for s in stmts:
            r = []
            refs(s, r)
            if not any(x["p"][0] == name for x in r):
                continue
            names = set(x["p"][0] for x in r)
            signs = set(bool(P.field("K0", n).get("s")) for n in names if n in [q["n"] for q in P.fields("K0")])
            if len(signs) > 1:
                feats.add("mixed-sign-statement")
            if any(not P.field("K0", n).get("r") for n in names):
                feats.add("nonrand-operand")
            txt = str(s)
            if "'slit'" in txt or "'-'" in txt or "'+'" in txt or "'*'" in txt:
                feats.add("const-arith")
            if s["t"] in ("if", "implies"):
                feats.add("conditional")
            if depth > 0:
                feats.add("nested")
    for b in P.blocks("K0"):
        walk(b["stmts"], 0)
    return sorted(feats)


def execute(rec):
    from .. import randworld
    import vsc.model.randomizer as vr
    P = refsem.Prog(rec["prog"])
    w = randworld.World(rec["prog"])
    prng = _r.Random(rec["probe_seed"])
    stats = {"judged_calls": 0, "fields_judged": 0, "narrowed_fields": 0, "feasible_probes": 0,
             "hook_calls": 0, "unconstrained_judged": 0}
    viol = []
    obs = []
    captured = {}

    def hook(ev, ri, bound_m, field_model_l, constraint_l):
        stats["hook_calls"] += 1
        snap = {}
        for fm, b in bound_m.items():
            snap[id(fm)] = ([(int(r[0]), int(r[1])) for r in b.domain.range_l], bool(b.constrained))
        captured["bounds"] = snap

    vr._verif_hook = hook
    nontrivial = False
    try:
        for oi, op in enumerate(rec["ops"]):
            if "p" in op and op["p"] >= len(w.parties):
                continue
            kind = op["op"]
            captured.pop("bounds", None)
            out = w.apply(op)
            obs.append((oi, kind, out["st"], w.tree(op["p"]) if "p" in op and kind in ("randomize", "rw") else None))
            if kind not in ("randomize", "rw") or out["st"] not in ("ok", "solvefail") or "bounds" not in captured:
                continue
            if prng.random() > 0.5:
                continue
            p = op["p"]
            pt = w.parties[p]
            cur = w.tree(p)
            rpaths = w.rand_paths(p, cur)
            model = pt.obj.get_model()
            by_name = {f.name: f for f in model.field_l}
            stats["judged_calls"] += 1
            bounds = captured["bounds"]
            for q in rpaths:
                fm = by_name.get(q[0])
                if fm is None or id(fm) not in bounds:
                    continue
                ranges, constrained = bounds[id(fm)]
                dom = list(refsem.path_domain(P, pt.cname, q))
                if len(dom) > 64:
                    continue
                stats["fields_judged"] += 1
                inside = lambda v: any(lo <= v <= hi for (lo, hi) in ranges)
                outside = [v for v in dom if not inside(v)]
                if outside:
                    stats["narrowed_fields"] += 1
                    nontrivial = True
                for v in outside:
                    stats["feasible_probes"] += 1
                    # (feasible = some solution of the class blocks plus this call's inline block)
                    if w.probe(p, [(q, v)], extra_inline=op.get("inline") if kind == "rw" else None):
                        feats = features(rec["prog"], q)
                        viol.append({"inv": "C14.range_excludes_feasible",
                                     "cls": "C14.range_excludes_feasible/" + "+".join(feats),
                                     "detail": {"op": oi, "field": q, "value": v, "ranges": ranges,
                                                "state": cur, "features": feats}})
                        break
                if viol:
                    break
            if viol:
                break
    finally:
        vr._verif_hook = None
    sig = progs.shape_sig(rec["prog"]["classes"]) + "|" + scen.op_sig(rec["ops"])
    return {"viol": viol, "stats": stats, "digest": kernel.digest(obs),
            "sigs": [kernel.digest(sig)[:16]] if nontrivial else [],
            "evals": stats["fields_judged"] + stats["feasible_probes"],
            "sim_ms": int(w.clock.elapsed * 1000)}

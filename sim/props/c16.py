"""C16 - a failed or aborted call does not poison later calls (fault enumeration)."""
import random as _r

from .. import kernel, progs, refsem, scen
from ..kernel import Streams

ID = "C16"
LEVEL = "fault_enumeration"
LEVEL_TEXT = ("every fault site of every generated workload is visited, one simulated run per site "
              "(user-callback exceptions at each callback entry and statement boundary, every "
              "randomize call forced unsatisfiable); workloads themselves are sampled by seed")
RULE = ("one run = one workload (object-tree program with pre/post_randomize callbacks, lists, "
        "foreach, sum/unique; 1-3 parties; 6-14 ops incl. late construction of a class using "
        "solve_order). The workload is executed fault-free to number every fault site, then once per "
        "site with the fault injected there (cb_raise) and once per call with the call made "
        "unsatisfiable (force_unsat). After the faulted op: shared construction stacks idle, model "
        "free of override constraints / solver handles; then both the faulted world and a control "
        "world in which the op was never issued run the normalising prefix and the remaining ops, "
        "and their traces must be equal. evaluations = fault runs; distinct = distinct "
        "(program shape, op 3-grams, fault kind@site kind). Workloads also hold a random-size list "
        "(its pre-extended storage is temporary state: list lengths after a failed call must equal "
        "those before it), free-function vsc.randomize_with calls, and fault sites between the "
        "operands of binary expressions (expr_mid).")
REAL = ["pyvsc (all of src/vsc)", "PyBoolector"]
STUB = ["user code (generated; raises at armed sites)", "stdout (sink)"]
ASSUMPTIONS = ["control-arm rule: a difference is reported only if the fault-free control world "
               "behaves consistently (it is the reference for 'a session where the failed call never happened')",
               "the normalising prefix (assign every field, re-seed) makes both worlds equal in "
               "everything the API lets a user control"]
REQUIRED_NONZERO = {"*": ["faults_fired.cb_raise", "faults_fired.force_unsat", "sites_total",
                          "later_ops_compared", "double_faults"]}


def budget(tier):
    if tier == "thorough":
        return {"runs": 1200, "wall": 3000}
    return {"runs": 192, "wall": 900}


def generate(seed, tier):
    st = Streams(seed)
    prog, g = scen.tree_program(st, feats={"cb": True, "depth": st.prog.choice([1, 2, 2])})
    top = prog["top"]
    P = refsem.Prog(prog)
    # a dynamic block (its body is user code run at construction) and soft constraints
    # (priorities are per-call state) in the top class
    tcls = P.cls(top)
    own0 = progs.fields_with_paths(tcls)[0]
    gp = progs.Gen(st.prog, dict(g.cfg, soft=True))
    if own0:
        if st.prog.random() < 0.6:
            tcls["blocks"].append({"n": "dyn0", "dyn": True,
                                   "stmts": progs.strip([gp.stmt(own0, 1, kinds=["expr", "in", "if"], nest=1)
                                                         for _ in range(st.prog.randint(1, 2))])})
        soft_f = None
        if st.prog.random() < 0.6:
            if st.prog.random() < 0.6:
                # mutually conflicting softs on one field: the winner is decided by priority only
                soft_f = st.prog.choice([f for f in own0 if f.get("r")] or own0)
                dom = list(refsem.field_domain(P, soft_f))
                tcls["blocks"].append({"n": "zsoft", "stmts": [
                    {"t": "soft", "e": progs.BIN("==", progs.F(soft_f["n"]), progs.LIT(st.prog.choice(dom)))}
                    for _ in range(st.prog.randint(2, 3))]})
            else:
                tcls["blocks"].append({"n": "zsoft", "stmts": progs.strip(
                    [{"t": "soft", "e": gp.bool_expr(own0, 1)} for _ in range(st.prog.randint(2, 3))])})
    else:
        soft_f = None
    if st.prog.random() < 0.5:
        # a random-size list: the library pre-extends its storage before solving, which is
        # temporary state that a failed call must take back
        hi = st.prog.randint(2, 6)
        tcls["fields"].append({"n": "rz", "k": "l", "w": 3, "s": False, "r": True, "rsz": True, "sz": 0})
        body = [progs.EXPR(progs.BIN(st.prog.choice(["<", "<=", "!="]),
                                     {"t": "f", "p": ["rz", progs._loopvar(0, True)]},
                                     progs.LIT(st.prog.randint(1, 7))))]
        tcls["blocks"].append({"n": "zrsz", "stmts": [
            progs.EXPR(progs.BIN("<=", {"t": "size", "p": ["rz"]}, progs.LIT(hi))),
            {"t": "foreach", "p": ["rz"], "it": True, "idx": True, "body": body}]})
    has_dyn = any(b.get("dyn") for b in tcls["blocks"])
    rng = st.ops
    n_parties = rng.choice([1, 2, 2, 3])
    ops = []
    for p in range(n_parties):
        ops.append({"op": "new", "cls": top})
        ops.append({"op": "seed", "p": p, "k": st.lib.randint(0, 1 << 30)})
    late = scen.solve_order_program(st.prog)
    gi = progs.Gen(st.ops, g.cfg)
    n_ops = rng.randint(5, 10 if tier == "quick" else 18)
    late_done = False
    for i in range(n_ops):
        r = rng.random()
        p = rng.randrange(n_parties)
        if r < 0.45:
            ops.append({"op": "randomize", "p": p})
        elif r < 0.75:
            inl = progs.strip(gi.inline_stmts(P.cls(top), [], 1, 2))
            if own0 and soft_f is not None and rng.random() < 0.6:
                dom = list(refsem.field_domain(P, soft_f))
                inl.append({"t": "soft", "e": progs.BIN("==", progs.F(soft_f["n"]), progs.LIT(rng.choice(dom)))})
            elif own0 and rng.random() < 0.4:
                inl.append(progs.strip({"t": "soft", "e": gi.bool_expr(own0, 1)}))
            if has_dyn and rng.random() < 0.3:
                inl.append(progs.EXPR({"t": "dynref", "n": "dyn0", "p": []}))
            if rng.random() < 0.25:
                # the free-function form has its own enter/exit code around the same shared stacks
                ops.append({"op": "frw", "p": p, "targets": [[p, []]], "ctx": p, "inline": inl,
                            "k": st.lib.randint(0, 1 << 30)})
            else:
                ops.append({"op": "rw", "p": p, "inline": inl})
        elif r < 0.85 and not late_done:
            ops.append({"op": "newprog", "prog": late})
            late_done = True
        elif r < 0.92:
            ops.append({"op": "new", "cls": top})
        elif r < 0.96 and [b for b in tcls["blocks"] if not b.get("dyn")]:
            # a switched-off block still takes part in the per-call expansion / rollback
            ops.append({"op": "cmode", "p": p, "path": [],
                        "block": rng.choice([b["n"] for b in tcls["blocks"] if not b.get("dyn")]),
                        "on": rng.random() < 0.4})
        else:
            ops.append({"op": "randomize", "p": p})
    if not late_done:
        ops.append({"op": "newprog", "prog": late})
    # a call on the late-constructed object, and one more on party 0
    ops.append({"op": "randomize", "p": -1})
    ops.append({"op": "randomize", "p": 0})
    return {"prop": ID, "seed": seed, "prog": prog, "ops": ops,
            "norm_seed": st.fault.randint(0, 1 << 30),
            "max_sites": 40 if tier == "quick" else 200,
            "double": 2 if tier == "quick" else 12,
            "site_seed": st.fault.randint(0, 1 << 30)}


def sample(rec):
    return {"seed": rec["seed"], "prog": rec["prog"], "ops": rec["ops"][:10], "n_ops": len(rec["ops"])}


def shrink(rec):
    return progs.shrink_record(rec, limit=64)


def tags(rec, viol):
    d = viol.get("detail", {})
    return ["fault:" + str(d.get("fault_kind")), "site:" + str(d.get("site_kind"))]


CONTRA = [{"t": "expr", "e": {"t": "bin", "op": "!=", "l": None, "r": None}}]


def contradiction_for(P, cname):
    f = [x for x in P.fields(cname) if x["k"] == "s"][0]
    fe = {"t": "f", "p": [f["n"]]}
    return [progs.EXPR(progs.BIN("<", fe, progs.LIT(1) if not f["s"] else progs.LIT(-1))),
            progs.EXPR(progs.BIN(">", fe, progs.LIT(1)))]


def run_world(rec, tagn, fault=None, skip=None, record_sites=False):
    """fault: ("site", n) | ("unsat", op index) ; skip: op index never issued.
    returns dict(trace=[...], sites=[...], idle=..., residue=..., fired=...)"""
    from .. import randworld, builder
    from vsc.model.rand_state import RandState
    w = randworld.World(rec["prog"], tag="_%s" % tagn)
    w.record_sites = record_sites
    P = w.prog
    nrng = _r.Random(rec["norm_seed"])
    _r.seed(rec["norm_seed"])          # the simulator owns the global random state
    trace = []
    op_sites = []
    post = None
    normal_residue = None
    k_fault = None
    if fault and fault[0] == "site":
        w.fault_plan = {fault[1]: "cb_raise"}
    if fault and fault[0] == "sites":
        w.fault_plan = {n_: "cb_raise" for n_ in fault[1]}
    skips = skip if isinstance(skip, (set, frozenset, list, tuple)) else ([skip] if skip is not None else [])
    posts = []
    for oi, op in enumerate(rec["ops"]):
        if oi in skips:
            k_fault = oi
            _normalise(w, nrng, rec)
            continue
        op = dict(op)
        if "p" in op:
            if op["p"] == -1:
                op["p"] = len(w.parties) - 1
            if op["p"] >= len(w.parties) or op["p"] < 0:
                trace.append((oi, op["op"], "skipped"))
                continue
        unsat_here = bool(fault and fault[0] == "unsat" and fault[1] == oi)
        if unsat_here:
            pt = w.parties[op["p"]]
            op["op"] = "rw"
            op["inline"] = list(op.get("inline") or []) + contradiction_for(pt.env.prog, pt.cname)
        s0 = w.site_no
        n_before = len(w.parties)
        lens0 = _list_lengths(_safe_tree(w, op["p"])) if op["op"] in ("randomize", "rw") else None
        out = w.apply(op)
        if len(w.parties) > n_before:
            # every party gets an explicit random state right after creation
            w.parties[-1].obj.set_randstate(RandState.mkFromSeed(
                kernel.H(rec["norm_seed"], "party", len(w.parties))))
        op_sites.append((oi, s0 + 1, w.site_no))
        entry = (oi, op["op"], out["st"], out.get("exc"))
        if op["op"] in ("randomize", "rw", "frw") and out["st"] in ("ok", "solvefail") and "p" in op:
            entry = entry + (_safe_tree(w, op["p"]),)
        faulted_now = (out["st"] == "fault") or (unsat_here and post is None)
        if faulted_now and (post is None or (fault and fault[0] == "sites")):
            k_fault = oi
            pobj = w.parties[op["p"]].obj if "p" in op and op["p"] < len(w.parties) else None
            post = {"op": oi, "outcome": out, "idle": randworld.global_state(),
                    "residue": randworld.model_residue(pobj) if pobj is not None else [],
                    "unsat": unsat_here}
            if out["st"] == "solvefail" and lens0 is not None:
                # nothing was solved: storage the library added to give the solver room is
                # temporary state of the call, the lists must be as long as before
                lens1 = _list_lengths(_safe_tree(w, op["p"]))
                if lens1 != lens0:
                    post["residue"] = list(post["residue"]) + [
                        "list %s: length %s before the failed call, %s after" % (k_, lens0.get(k_), v_)
                        for k_, v_ in sorted(lens1.items()) if lens0.get(k_) != v_]
            posts.append(post)
            _normalise(w, nrng, rec)
            trace.append((oi, "FAULTED"))
            continue
        if record_sites and op["op"] in ("randomize", "rw", "frw") and out["st"] == "ok" and "p" in op:
            # a call that ended normally leaves no temporary constraint / solver handle either
            res_n = randworld.model_residue(w.parties[op["p"]].obj)
            if res_n and normal_residue is None:
                normal_residue = {"op": oi, "residue": res_n[:8]}
        trace.append(entry)
    return {"normal_residue": normal_residue, "trace": trace, "sites": list(w.sites_seen), "op_sites": op_sites, "post": post, "posts": posts,
            "fired": dict(w.faults_fired), "k": k_fault, "idle_end": randworld.global_state(),
            "sim_ms": int(w.clock.elapsed * 1000)}


def _safe_tree(w, p):
    """a poisoned library (e.g. expression mode left on) makes plain attribute reads misbehave:
    that must surface as a difference / non-idle state, not as a harness error"""
    try:
        return w.tree(p)
    except Exception as e:      # noqa
        return {"__unreadable__": type(e).__name__}


def _list_lengths(tree, base="", out=None):
    out = {} if out is None else out
    for k_, v_ in tree.items():
        if isinstance(v_, list):
            out[base + k_] = len(v_)
            for i_, e_ in enumerate(v_):
                if isinstance(e_, dict):
                    _list_lengths(e_, "%s%s[%d]." % (base, k_, i_), out)
        elif isinstance(v_, dict):
            _list_lengths(v_, base + k_ + ".", out)
    return out


def _normalise(w, nrng, rec):
    """normalising prefix: assign every field of every party, re-seed"""
    from .. import builder
    from vsc.model.rand_state import RandState
    for pi, pt in enumerate(w.parties):
        # the length of a random-size list is user-controllable state too: empty it (clear() is
        # the public way), so that both worlds assign the same number of normalising values
        for f in pt.env.prog.fields(pt.cname):
            if f.get("rsz"):
                try:
                    getattr(pt.obj, f["n"]).clear()
                except Exception:
                    pass
        try:
            tree = w.tree(pi)
        except Exception:
            continue
        for (path, v) in scen.norm_values(pt.env.prog.prog, pt.cname, tree, nrng):
            try:
                builder.assign_path(pt.env, pt.cname, pt.obj, path, v)
            except Exception:
                pass
        pt.obj.set_randstate(RandState.mkFromSeed(nrng.randint(0, 1 << 30)))


def later(trace, k):
    return [t for t in trace if t[0] > k]


def execute(rec):
    stats = {"faults_fired": {}, "sites_total": 0, "sites_enumerated": 0, "later_ops_compared": 0,
             "inconclusive_control_failed": 0, "unsat_sites": 0, "fault_runs": 0}
    viol = []
    sigs = set()
    base = run_world(rec, "b", record_sites=True)
    sites = base["sites"]
    stats["sites_total"] = len(sites)
    if base.get("normal_residue"):
        viol.append({"inv": "C16.model_residue", "cls": "C16.model_residue/normal_call",
                     "detail": dict(base["normal_residue"], op_def=rec["ops"][base["normal_residue"]["op"]])})
    calls = [oi for oi, op in enumerate(rec["ops"]) if op["op"] in ("randomize", "rw")]
    only = rec.get("only_fault")
    plan = []
    if only is not None:
        plan = [tuple(only)]
    else:
        chosen = list(sites)
        if len(chosen) > rec["max_sites"]:
            rng = _r.Random(rec["site_seed"])
            chosen = sorted(rng.sample(chosen, rec["max_sites"]))
        plan = [("site", n, k) for (n, k) in chosen] + [("unsat", oi, "call") for oi in calls]
    shape = progs.shape_sig(rec["prog"]["classes"]) + "|" + scen.op_sig(rec["ops"])
    ctl_cache = {}
    sim_ms = base["sim_ms"]
    seen_cls = set()

    def report(v):
        if v["cls"] not in seen_cls:
            seen_cls.add(v["cls"])
            viol.append(v)

    for fi, f in enumerate(plan):
        kind, n = f[0], f[1]
        skind = f[2] if len(f) > 2 else "?"
        tw = run_world(rec, "t%d" % fi, fault=(kind, n))
        stats["fault_runs"] += 1
        sim_ms += tw["sim_ms"]
        if kind == "site":
            stats["sites_enumerated"] += 1
        else:
            stats["unsat_sites"] += 1
        post = tw["post"]
        if post is None:
            continue            # the site was not reached / call was already unsat: nothing injected
        fk = "cb_raise" if kind == "site" else "force_unsat"
        stats["faults_fired"][fk] = stats["faults_fired"].get(fk, 0) + 1
        sigs.add(kernel.digest(shape + "|" + fk + "@" + str(skind))[:16])
        k = tw["k"]
        detail = {"fault_kind": fk, "site": n, "site_kind": skind, "op": k,
                  "op_def": rec["ops"][k], "outcome": post["outcome"]}
        if kind == "unsat" and post["outcome"]["st"] != "solvefail":
            # (that is C02's business; here only what happens afterwards matters)
            pass
        if any(post["idle"].values()):
            detail["idle"] = post["idle"]
            report({"inv": "C16.global_not_idle", "detail": detail,
                    "cls": "C16.global_not_idle/%s/%s" % (fk, skind), "fault": [kind, n, skind]})
            # the shared stacks are process-global: every later world of this run would start
            # from the poisoned state and only repeat this finding under other site names
            break
        if post["residue"]:
            detail["residue"] = post["residue"][:8]
            report({"inv": "C16.model_residue", "detail": detail,
                    "cls": "C16.model_residue/%s/%s" % (fk, skind), "fault": [kind, n, skind]})
            continue
        if k not in ctl_cache:
            ctl_cache[k] = run_world(rec, "c%d" % k, skip=k)
            sim_ms += ctl_cache[k]["sim_ms"]
        cw = ctl_cache[k]
        lt, lc = later(tw["trace"], k), later(cw["trace"], k)
        stats["later_ops_compared"] += len(lc)
        if lt != lc:
            # control-arm rule: the control world must itself be sane
            if any(t[2] == "exc" for t in lc if len(t) > 2):
                stats["inconclusive_control_failed"] += 1
                continue
            d = None
            for a, b in zip(lt, lc):
                if a != b:
                    d = {"treated": a, "control": b}
                    break
            detail["diff"] = d or {"len_treated": len(lt), "len_control": len(lc)}
            report({"inv": "C16.later_behaviour", "detail": detail,
                    "cls": "C16.later_behaviour/%s/%s" % (fk, skind), "fault": [kind, n, skind]})
    # double faults (thorough tier): a second fault during the use that follows the first one
    if rec.get("double") and not viol:
        drng = _r.Random(rec["site_seed"] ^ 0x5a5a)
        firsts = [f for f in plan if f[0] == "site"]
        drng.shuffle(firsts)
        for fi, f in enumerate(firsts[:rec["double"]]):
            t1 = run_world(rec, "d%da" % fi, fault=("site", f[1]), record_sites=True)
            if t1["post"] is None:
                continue
            later_sites = [n_ for (n_, k_) in t1["sites"] if n_ > f[1]]
            if not later_sites:
                continue
            n2 = drng.choice(later_sites)
            t2 = run_world(rec, "d%db" % fi, fault=("sites", [f[1], n2]))
            stats["fault_runs"] += 2
            if len(t2["posts"]) < 2:
                continue
            stats["double_faults"] = stats.get("double_faults", 0) + 1
            stats["faults_fired"]["cb_raise"] = stats["faults_fired"].get("cb_raise", 0) + 2
            ks = [p_["op"] for p_ in t2["posts"]]
            bad = None
            for p_ in t2["posts"]:
                if any(p_["idle"].values()):
                    bad = ("C16.global_not_idle", {"idle": p_["idle"]})
                elif p_["residue"]:
                    bad = ("C16.model_residue", {"residue": p_["residue"][:8]})
            if bad is None:
                cw = run_world(rec, "d%dc" % fi, skip=set(ks))
                lt = [t for t in later(t2["trace"], ks[0]) if t[1] != "FAULTED"]
                lc = [t for t in later(cw["trace"], ks[0])]
                stats["later_ops_compared"] += len(lc)
                if lt != lc and not any(t[2] == "exc" for t in lc if len(t) > 2):
                    d = None
                    for a, b in zip(lt, lc):
                        if a != b:
                            d = {"treated": a, "control": b}
                            break
                    bad = ("C16.later_behaviour", {"diff": d})
            if bad is not None:
                report({"inv": bad[0], "cls": bad[0] + "/double_fault",
                        "detail": dict(bad[1], sites=[f[1], n2], ops=ks), "fault": ["sites", [f[1], n2]]})
    return {"viol": viol, "stats": stats,
            "digest": kernel.digest([base["trace"], len(sites)]),
            "sigs": sorted(sigs), "evals": stats["fault_runs"], "sim_ms": sim_ms}

"""C17 - pre_randomize / post_randomize run once each, before and after the solve."""
import random as _r

from .. import kernel, progs, refsem, scen
from ..kernel import Streams

ID = "C17"
LEVEL = "exploration"
RULE = ("one run = a generated object tree (depth 1-3, random and non-random sub-objects, object lists, "
        "pre/post_randomize on every class) with 1-2 parties and 6-20 calls of all kinds (randomize, "
        "randomize_with, vsc.randomize(obj), vsc.randomize_with(obj)), some forced unsatisfiable. "
        "Callbacks append (sequence number, object path, phase, values visible in the whole tree) to "
        "the event log; pre_randomize assigns scheduler-chosen values to the object's non-random "
        "fields. History oracle per normally returning call: exactly one pre and one post for the top "
        "object and every random sub-object / list element reached through random parents, none at or "
        "below a non-random sub-object; every pre precedes every post; the result satisfies the "
        "constraints under the values assigned in pre_randomize; the values seen in every "
        "post_randomize equal those read after the call returns. Non-trivial = a judged call on a tree "
        "with >=2 callback-bearing objects; distinct = (tree shape, op 3-grams)."
        " One party may be of a class with nothing random and nothing constrained (callbacks of the called object still run once each)."
        " Some calls are re-entered: the top object's pre_randomize makes a nested randomize() on a non-random sub-object; the nested call shows exactly its own callbacks, the enclosing call none of them.")
REAL = ["pyvsc (all of src/vsc)", "PyBoolector"]
STUB = ["user code (generated callbacks recording events)", "stdout (sink)"]
ASSUMPTIONS = ["the event log's global sequence number orders callbacks; object identity is mapped to "
               "its attribute path in the party's tree"]
REQUIRED_NONZERO = {"*": ["reentrant_calls", "judged_calls", "cb_events", "nonrand_subtrees", "pre_assignments",
                          "failed_calls_before_judged", "sub_calls"]}


def budget(tier):
    if tier == "thorough":
        return {"runs": 3000, "wall": 3000}
    return {"runs": 640, "wall": 600}


def generate(seed, tier):
    st = Streams(seed)
    rng = st.prog
    prog, g = scen.tree_program(st, feats={"cb": True, "depth": rng.choice([2, 2, 3]), "nonrand_sub": True,
                                           "objlists": rng.random() < 0.7, "fanout": 2},
                                cfg={"nonrand": True, "loose": 0.75, "max_stmts": 2, "max_blocks": 1})
    top = prog["top"]
    P = refsem.Prog(prog)
    orng = st.ops
    n_parties = orng.choice([1, 1, 2])
    ops = []
    for p in range(n_parties):
        ops.append({"op": "new", "cls": top})
        ops.append({"op": "seed", "p": p, "k": st.lib.randint(0, 1 << 30)})
    own = progs.fields_with_paths(P.cls(top))[0]
    gi = progs.Gen(orng, g.cfg)
    n_ops = orng.randint(6, 16 if tier == "quick" else 40)
    subs = sub_object_paths(P, top)
    # direct non-random sub-objects of the top class (attribute kind "o", not declared rand)
    nr_objs = [[f["n"]] for f in P.fields(top) if f["k"] == "o" and not f.get("r")]
    for _ in range(n_ops):
        p = orng.randrange(n_parties)
        r = orng.random()
        if subs and r < 0.12:
            # a call directly on an object somewhere below the top (also below non-random members)
            path, cn = orng.choice(subs)
            ops.append({"op": "frand", "targets": [[p, path]], "k": st.lib.randint(0, 1 << 30),
                        "sub": cn})
        elif r < 0.4:
            op_ = {"op": "randomize", "p": p}
            if nr_objs and orng.random() < 0.3:
                # re-entrancy: the top object's pre_randomize itself calls randomize() on one of its
                # non-random sub-objects (a separate, nested call)
                op_["reenter"] = orng.choice(nr_objs)
            ops.append(op_)
        elif r < 0.65:
            inl = progs.strip(gi.stmts(own, 1, lo=1, hi=1)) if own else []
            op = {"op": "rw", "p": p, "inline": inl}
            if own and orng.random() < 0.35:
                fe = {"t": "f", "p": own[0]["_p"]}
                op["inline"] = inl + [progs.EXPR(progs.BIN("<", fe, progs.LIT(1))),
                                      progs.EXPR(progs.BIN(">", fe, progs.LIT(1)))]
                op["fault"] = "force_unsat"
            ops.append(op)
        elif r < 0.85:
            ops.append({"op": "frand", "targets": [[p, []]], "k": st.lib.randint(0, 1 << 30)})
        else:
            inl = progs.strip(gi.stmts(own, 1, lo=1, hi=1)) if own else []
            ops.append({"op": "frw", "targets": [[p, []]], "ctx": p, "inline": inl,
                        "k": st.lib.randint(0, 1 << 30)})
    if rng.random() < 0.4:
        # an object in which nothing is random and nothing is constrained: the callbacks of the
        # object the call is made on run all the same
        z = {"name": "Z0", "cb": True, "blocks": [], "fields": [
            {"n": "n0", "k": "s", "w": 3, "s": False, "r": False, "i": rng.randint(0, 7)},
            {"n": "n1", "k": "s", "w": 4, "s": True, "r": False, "i": 0}]}
        if rng.random() < 0.5:
            z["fields"].append({"n": "el", "k": "lo", "c": prog["classes"][0]["name"], "r": True, "sz": 0})
        prog["classes"].append(z)
        zp = n_parties
        zops = [{"op": "new", "cls": "Z0"}, {"op": "seed", "p": zp, "k": st.lib.randint(0, 1 << 30)}]
        for _ in range(orng.randint(2, 4)):
            k_ = orng.choice(["randomize", "rw", "frand", "frw"])
            if k_ == "randomize":
                zops.append({"op": "randomize", "p": zp})
            elif k_ == "rw":
                zops.append({"op": "rw", "p": zp, "inline": []})
            elif k_ == "frand":
                zops.append({"op": "frand", "targets": [[zp, []]], "k": st.lib.randint(0, 1 << 30)})
            else:
                zops.append({"op": "frw", "targets": [[zp, []]], "ctx": zp, "inline": [],
                             "k": st.lib.randint(0, 1 << 30)})
        ops += zops
    return {"prop": ID, "seed": seed, "prog": prog, "ops": ops,
            "pre_seed": st.fault.randint(0, 1 << 30)}


def sample(rec):
    return {"seed": rec["seed"], "prog": rec["prog"], "ops": rec["ops"][:10], "n_ops": len(rec["ops"])}


def shrink(rec):
    return progs.shrink_record(rec, limit=120)


def tags(rec, viol):
    return []


def sub_object_paths(P, cname, base=None, out=None):
    """(path, class) of every object below an object of class cname (class-level walk)"""
    if out is None:
        out = []
    base = base or []
    for f in P.fields(cname):
        if f["k"] == "o":
            out.append((base + [f["n"]], f["c"]))
            sub_object_paths(P, f["c"], base + [f["n"]], out)
        elif f["k"] == "lo":
            for i in range(f.get("sz", 0)):
                out.append((base + [f["n"], i], f["c"]))
                sub_object_paths(P, f["c"], base + [f["n"], i], out)
    return out


def object_paths(P, cname, obj, base=None, out=None, rand_ctx=True):
    """[(path, object, class name, reached-through-random-parents)]"""
    if out is None:
        out = []
    base = base or []
    out.append((list(base), obj, cname, rand_ctx))
    for f in P.fields(cname):
        if f["k"] == "o":
            object_paths(P, f["c"], getattr(obj, f["n"]), base + [f["n"]], out,
                         rand_ctx and bool(f.get("r")))
        elif f["k"] == "lo":
            for i, e in enumerate(getattr(obj, f["n"])):
                object_paths(P, f["c"], e, base + [f["n"], i], out, rand_ctx and bool(f.get("r")))
    return out


def execute(rec):
    from .. import randworld, builder
    P = refsem.Prog(rec["prog"])
    w = randworld.World(rec["prog"])
    stats = {"judged_calls": 0, "cb_events": 0, "nonrand_subtrees": 0, "pre_assignments": 0,
             "failed_calls_before_judged": 0, "calls": 0, "ambiguous_skipped": 0}
    viol = []
    obs = []
    ident = {}           # id(obj) -> (party, path, cname)
    cur = {"events": [], "call": None}
    nontrivial = False

    def handler(obj, phase, cname):
        info = ident.get(id(obj))
        if info is None:
            cur["events"].append({"phase": phase, "path": None, "cls": cname})
            return
        party, path, cn = info
        ev = {"phase": phase, "party": party, "path": path, "seq": w.log.seq}
        if cur.get("nested_depth"):
            # events of a nested call are kept apart: they belong to that call
            cur["nested"].append({"phase": phase, "party": party, "path": path})
            if phase == "pre":
                prng_n = _r.Random(kernel.H(rec["pre_seed"], cur["call"], "n", refsem.path_key(path)))
                for f in P.fields(cn):
                    if f["k"] == "s" and not f.get("r"):
                        dom = refsem.field_domain(P, f)
                        setattr(obj, f["n"], dom[prng_n.randrange(len(dom))])
            return
        if phase == "pre":
            # assign scheduler-chosen values to this object's non-random scalar fields
            prng = _r.Random(kernel.H(rec["pre_seed"], cur["call"], refsem.path_key(path)))
            assigned = []
            for f in P.fields(cn):
                if f["k"] == "s" and not f.get("r"):
                    dom = refsem.field_domain(P, f)
                    v = dom[prng.randrange(len(dom))]
                    setattr(obj, f["n"], v)
                    assigned.append((path + [f["n"]], v))
            ev["assigned"] = assigned
            stats["pre_assignments"] += len(assigned)
            ro = cur.get("op") or {}
            if ro.get("reenter") and path == [] and party == ro.get("p"):
                from vsc.model.solve_failure import SolveFailure
                tgt = builder.get_path(w.env, obj, ro["reenter"])
                cur["nested_depth"] = 1
                cur["nested"] = []
                try:
                    tgt.randomize()
                    cur["nested_st"] = "ok"
                except SolveFailure:
                    cur["nested_st"] = "solvefail"
                finally:
                    cur["nested_depth"] = 0
                stats["reentrant_calls"] = stats.get("reentrant_calls", 0) + 1
        else:
            ev["tree"] = w.tree(party)
        cur["events"].append(ev)
        w.log.add("cb", phase=phase, party=party)

    w.cb_handler = handler
    failed_seen = False
    for oi, op in enumerate(rec["ops"]):
        kind = op["op"]
        if "p" in op and op["p"] >= len(w.parties):
            continue
        if kind in ("frand", "frw") and op["targets"][0][0] >= len(w.parties):
            continue
        cur["events"] = []
        cur["call"] = oi
        cur["op"] = op
        cur["nested"] = []
        cur["nested_st"] = None
        out = w.apply(op)
        cur["op"] = None
        if kind == "new" and out["st"] == "ok":
            p = out["p"]
            pt = w.parties[p]
            for (path, o, cn, rc) in object_paths(P, pt.cname, pt.obj):
                ident[id(o)] = (p, path, cn)
            obs.append((oi, kind, "ok"))
            continue
        if kind not in ("randomize", "rw", "frand", "frw"):
            obs.append((oi, kind, out["st"]))
            continue
        stats["calls"] += 1
        p = op["p"] if "p" in op else op["targets"][0][0]
        pt = w.parties[p]
        events = list(cur["events"])
        stats["cb_events"] += len(events)
        if out["st"] != "ok":
            failed_seen = True
            obs.append((oi, kind, out["st"], len(events)))
            continue
        if failed_seen:
            stats["failed_calls_before_judged"] += 1
        final = w.tree(p)
        obs.append((oi, kind, "ok", final, [(e["phase"], e.get("path")) for e in events]))
        stats["judged_calls"] += 1
        if op.get("sub"):
            # the call was made on a sub-object: it is the top of this call
            spath = op["targets"][0][1]
            sobj = builder.get_path(w.env, pt.obj, spath)
            objs = object_paths(P, op["sub"], sobj, base=list(spath))
            stats["sub_calls"] = stats.get("sub_calls", 0) + 1
            inside = set(refsem.path_key(path) for (path, o, cn, rc) in objs)
            allobjs = object_paths(P, pt.cname, pt.obj)
            objs = objs + [(path, o, cn, False) for (path, o, cn, rc) in allobjs
                           if refsem.path_key(path) not in inside]
        else:
            objs = object_paths(P, pt.cname, pt.obj)
        expected = [refsem.path_key(path) for (path, o, cn, rc) in objs if rc]
        forbidden = [refsem.path_key(path) for (path, o, cn, rc) in objs if not rc]
        if forbidden:
            stats["nonrand_subtrees"] += 1
        if len(expected) >= 2:
            nontrivial = True
        detail = {"op": oi, "kind": kind, "events": [(e["phase"], e.get("path")) for e in events]}
        if op.get("reenter") and cur["nested_st"] == "ok":
            # the nested call is a call of its own: exactly one pre and one post on the objects
            # that are random below its target, and none of it shows up in the enclosing call
            detail["nested"] = [(e["phase"], e.get("path")) for e in cur["nested"]]
            nobj = builder.get_path(w.env, pt.obj, op["reenter"])
            ncls = [cn_ for (pth_, o_, cn_, rc_) in object_paths(P, pt.cname, pt.obj)
                    if pth_ == list(op["reenter"])][0]
            nexp = [refsem.path_key(pth_) for (pth_, o_, cn_, rc_) in
                    object_paths(P, ncls, nobj, base=list(op["reenter"])) if rc_]
            for ph in ("pre", "post"):
                gotn = [refsem.path_key(e["path"]) for e in cur["nested"] if e["phase"] == ph]
                if sorted(gotn) != sorted(nexp):
                    viol.append({"inv": "C17.count", "cls": "C17.count/nested_call_" + ph,
                                 "detail": dict(detail, expected=nexp, got=gotn)})
                    break
            if viol:
                break
        # count
        for ph in ("pre", "post"):
            got = [refsem.path_key(e["path"]) for e in events
                   if e["phase"] == ph and e.get("path") is not None and e.get("party") == p]
            for k in expected:
                if got.count(k) != 1:
                    viol.append({"inv": "C17.count", "cls": "C17.count/%s_%s" % (ph, "missing" if got.count(k) == 0 else "repeated"),
                                 "detail": dict(detail, object=k, phase=ph, times=got.count(k))})
                    break
            if viol:
                break
            for k in forbidden:
                if k in got:
                    viol.append({"inv": "C17.nonrandom_called", "cls": "C17.nonrandom_called/" + ph,
                                 "detail": dict(detail, object=k, phase=ph)})
                    break
            if viol:
                break
        if viol:
            break
        foreign = [e for e in events if e.get("path") is None or e.get("party") != p]
        if foreign:
            viol.append({"inv": "C17.count", "cls": "C17.count/foreign_object",
                         "detail": dict(detail, foreign=len(foreign))})
            break
        # order: every pre precedes every post
        phases = [e["phase"] for e in events]
        if "post" in phases and "pre" in phases[phases.index("post"):]:
            viol.append({"inv": "C17.order", "cls": "C17.order", "detail": detail})
            break
        # values assigned by pre_randomize are the ones the solver saw
        for e in events:
            for (path, v) in e.get("assigned", []):
                if refsem._walk(final, path) != v:
                    viol.append({"inv": "C17.pre_visible", "cls": "C17.pre_visible/overwritten",
                                 "detail": dict(detail, path=path, assigned=v,
                                                final=refsem._walk(final, path))})
                    break
            if viol:
                break
        if viol:
            break
        try:
            if op.get("sub"):
                fail = refsem.check_tree(P, op["sub"], refsem._walk(final, op["targets"][0][1]))
            else:
                fail = refsem.check_tree(P, pt.cname, final, pt.modes, pt.rangelists, op.get("inline"))
        except refsem.RefError:
            stats["ambiguous_skipped"] += 1
            fail = None
        if fail is not None:
            viol.append({"inv": "C17.pre_visible", "cls": "C17.pre_visible/stale_constant",
                         "detail": dict(detail, failing=fail, final=final)})
            break
        # values seen in post_randomize are final
        for e in events:
            if e["phase"] == "post" and e.get("tree") != final:
                viol.append({"inv": "C17.post_final", "cls": "C17.post_final",
                             "detail": dict(detail, object=e.get("path"), seen=e.get("tree"), final=final)})
                break
        if viol:
            break
    sig = progs.shape_sig(rec["prog"]["classes"]) + "|" + scen.op_sig(rec["ops"])
    return {"viol": viol, "stats": stats, "digest": kernel.digest(obs),
            "sigs": [kernel.digest(sig)[:16]] if nontrivial and stats["judged_calls"] else [],
            "evals": stats["judged_calls"], "sim_ms": int(w.clock.elapsed * 1000)}

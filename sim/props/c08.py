"""C08 - constraints reach through the object hierarchy to exactly the fields they name."""
import random as _r

from .. import kernel, progs, refsem, scen
from ..kernel import Streams

ID = "C08"
LEVEL = "exploration"
RULE = ("one run = a generated object tree (depth 2-3, fan-out <= 3, object lists <= 3, several "
        "sub-objects of one class, random and non-random sub-objects, attribute names that permute "
        "dir() order) with cross-level constraints by attribute path and list index; 1-2 parties; "
        "6-20 ops: randomize / randomize_with, assignments into non-random sub-objects (also values "
        "that violate the sub-object's own blocks). Oracles: reference evaluation of the returned "
        "tree over the path-addressed register file (sub-object blocks applied exactly when the "
        "sub-object is random in the call) and single-field pin-probes on each sibling separately: "
        "the implementation's verdict must equal the reference verdict, so a constraint aliased onto "
        "the wrong sibling shows twice. Non-trivial = a judged call on a tree with >= 2 sub-objects of "
        "one class and >= 1 cross-level statement; distinct = (tree shape, op 3-grams)."
        " Object lists are also edited by index assignment, legal appends and rejected appends (caught exception); witness oracle for spurious failures.")
REAL = ["pyvsc (all of src/vsc)", "PyBoolector"]
STUB = ["user code (generated)", "stdout (sink)"]
ASSUMPTIONS = ["statement shapes are those C01 validates; list elements reached through a list index "
               "are not referenced (the library raises NotImplementedError for them)"]
REQUIRED_NONZERO = {"*": ["witness_calls", "list_replacements", "rejected_appends", "judged_calls", "probes", "probe_reject_expected", "probe_accept_expected",
                          "sibling_trees", "nonrand_sub_assigns", "list_replacements"]}


def budget(tier):
    if tier == "thorough":
        return {"runs": 3000, "wall": 3000}
    return {"runs": 480, "wall": 600}


def rename_fields(prog, rng):
    """give fields names whose dir() order differs from declaration order"""
    import copy
    prog = copy.deepcopy(prog)
    maps = {}
    for c in prog["classes"]:
        m = {}
        letters = list("abcdefghjkmnpqrstuvwxyz")
        rng.shuffle(letters)
        for i, f in enumerate(c["fields"]):
            m[f["n"]] = "%s_%s" % (letters[i % len(letters)], f["n"])
        maps[c["name"]] = m
    by = {c["name"]: c for c in prog["classes"]}

    def ren_path(cname, path):
        out = []
        cur = cname
        for x in path:
            if isinstance(x, str):
                f = [g for g in by[cur]["fields"] if g["n"] == x][0]
                out.append(maps[cur][x])
                if f["k"] in ("o", "lo"):
                    cur = f["c"]
            else:
                out.append(x)
        return out

    def walk(o, cname):
        if isinstance(o, dict):
            if "p" in o and isinstance(o["p"], list):
                o["p"] = ren_path(cname, o["p"])
            for k, v in o.items():
                if k != "p":
                    walk(v, cname)
        elif isinstance(o, list):
            for v in o:
                walk(v, cname)
    for c in prog["classes"]:
        walk(c["blocks"], c["name"])
    for c in prog["classes"]:
        for f in c["fields"]:
            f["n"] = maps[c["name"]][f["n"]]
    return prog


def generate(seed, tier):
    st = Streams(seed)
    rng = st.prog
    prog, g = scen.tree_program(st, feats={"depth": rng.choice([2, 2, 3]), "fanout": rng.choice([2, 3]),
                                           "nonrand_sub": True, "objlists": rng.random() < 0.7,
                                           "lists": rng.random() < 0.5, "cross": True},
                                cfg={"loose": 0.85, "max_stmts": 2, "max_blocks": 1})
    if rng.random() < 0.7:
        prog = rename_fields(prog, rng)
    top = prog["top"]
    P = refsem.Prog(prog)
    orng = st.ops
    n_parties = orng.choice([1, 1, 2])
    ops = []
    for p in range(n_parties):
        ops.append({"op": "new", "cls": top})
        ops.append({"op": "seed", "p": p, "k": st.lib.randint(0, 1 << 30)})
    # scalar paths below non-random sub-objects
    from .c03 import all_paths
    nr_sub = [(p_, f) for (p_, f, r) in all_paths(P, top) if not r and len(p_) > 1 and f["k"] == "s"]
    own = progs.fields_with_paths(P.cls(top))[0]
    go = progs.Gen(orng, g.cfg)
    top_lo = [f for f in P.fields(top) if f["k"] == "lo"]
    for _ in range(orng.randint(6, 16 if tier == "quick" else 40)):
        p = orng.randrange(n_parties)
        r = orng.random()
        if top_lo and r < 0.14:
            # the list gets a new set of element objects (same length: constraints by index stay valid)
            f = orng.choice(top_lo)
            others_ = [c["name"] for c in prog["classes"] if c["name"] not in (f["c"], top)
                       and f["c"] not in [b_["name"] for b_ in P.mro(c["name"])]]
            r2 = orng.random()
            if r2 < 0.25 and others_:
                # a rejected append (unrelated class) that the caller catches, then a legal one
                ops.append({"op": "lo_append_bad", "p": p, "path": [f["n"]], "bad": orng.choice(others_)})
                ops.append({"op": "lo_append", "p": p, "path": [f["n"]], "cls": f["c"]})
            elif r2 < 0.35:
                ops.append({"op": "lo_append", "p": p, "path": [f["n"]], "cls": f["c"]})
            elif orng.random() < 0.5:
                ops.append({"op": "lo_replace", "p": p, "path": [f["n"]], "cls": f["c"], "n": f["sz"]})
            else:
                # a single element is replaced by index assignment
                ops.append({"op": "lo_setitem", "p": p, "path": [f["n"]], "cls": f["c"],
                            "i": orng.randrange(max(1, f["sz"]))})
        elif r < 0.5:
            ops.append({"op": "randomize", "p": p})
        elif r < 0.7 and own:
            ops.append({"op": "rw", "p": p, "inline": [progs.simple_stmt(orng, own)]})
        elif nr_sub:
            path, f = orng.choice(nr_sub)
            ops.append({"op": "assign", "p": p, "path": path, "v": go.in_range_value(f), "nrsub": True})
        else:
            ops.append({"op": "randomize", "p": p})
    return {"prop": ID, "seed": seed, "prog": prog, "ops": ops,
            "probe_seed": st.fault.randint(0, 1 << 30)}


def sample(rec):
    return {"seed": rec["seed"], "prog": rec["prog"], "ops": rec["ops"][:10], "n_ops": len(rec["ops"])}


def shrink(rec):
    return progs.shrink_record(rec, limit=150)


def tags(rec, viol):
    return []


def sibling_count(P, top):
    best = 0
    for c in P.classes.values():
        cnt = {}
        for f in c["fields"]:
            if f["k"] == "o":
                cnt[f["c"]] = cnt.get(f["c"], 0) + 1
            elif f["k"] == "lo":
                cnt[f["c"]] = cnt.get(f["c"], 0) + f.get("sz", 0)
        if cnt:
            best = max(best, max(cnt.values()))
    return best


def execute(rec):
    from .. import randworld
    P = refsem.Prog(rec["prog"])
    top = rec["prog"]["top"]
    w = randworld.World(rec["prog"])
    prng = _r.Random(rec["probe_seed"])
    stats = {"judged_calls": 0, "probes": 0, "probe_reject_expected": 0, "probe_accept_expected": 0,
             "sibling_trees": 1 if sibling_count(P, top) >= 2 else 0, "nonrand_sub_assigns": 0,
             "ambiguous_skipped": 0, "solvefail": 0}
    viol = []
    obs = []
    nontrivial = False
    for oi, op in enumerate(rec["ops"]):
        if "p" in op and op["p"] >= len(w.parties):
            continue
        kind = op["op"]
        # if the state the object is in already satisfies every enforced constraint, the system
        # is satisfiable (the state itself is a witness): the call must not fail
        witness = w.witness(op)
        pre = w.tree(op["p"]) if witness else None
        out = w.apply(op)
        if kind == "assign" and op.get("nrsub"):
            stats["nonrand_sub_assigns"] += 1
        if kind == "lo_append_bad":
            ba = w.last_bad_append
            stats["rejected_appends"] = stats.get("rejected_appends", 0) + (1 if ba["rejected"] else 0)
            if ba["rejected"] and ba["before"] != ba["after"]:
                # index k must keep naming the same element object for the user and for the model
                viol.append({"inv": "C08.named_field", "cls": "C08.named_field/rejected_append_changed_list",
                             "detail": {"op": oi, "len_before": ba["len_before"], "len_after": ba["len_after"]}})
                break
        if kind == "lo_append" and out["st"] == "ok":
            la = w.last_append
            if la["len_after"] != la["len_before"] + 1 or not la["last_is_new"]:
                viol.append({"inv": "C08.named_field", "cls": "C08.named_field/append_not_at_end",
                             "detail": {"op": oi, "append": la}})
                break
        if kind in ("lo_replace", "lo_setitem", "lo_append"):
            stats["list_replacements"] = stats.get("list_replacements", 0) + 1
        if kind not in ("randomize", "rw"):
            obs.append((oi, kind, out["st"]))
            continue
        p = op["p"]
        pt = w.parties[p]
        if out["st"] == "exc":
            obs.append((oi, kind, "exc", out.get("exc")))
            viol.append({"inv": "C08.named_field", "cls": "C08.exception/%s/%s" % (out.get("exc"), out.get("where")),
                         "detail": {"op": oi, "outcome": out}})
            break
        if out["st"] != "ok":
            stats["solvefail"] += 1
            obs.append((oi, kind, out["st"]))
            if witness:
                viol.append({"inv": "C08.subobject_blocks", "cls": "C08.subobject_blocks/fails_with_witness",
                             "detail": {"op": oi, "state": pre, "outcome": out}})
                break
            continue
        if witness:
            stats["witness_calls"] = stats.get("witness_calls", 0) + 1
        tree = w.tree(p)
        obs.append((oi, kind, "ok", tree))
        try:
            fail = refsem.check_tree(P, pt.cname, tree, pt.modes, pt.rangelists, op.get("inline"))
        except refsem.RefError:
            stats["ambiguous_skipped"] += 1
            continue
        stats["judged_calls"] += 1
        if stats["sibling_trees"]:
            nontrivial = True
        if fail is not None:
            inv = "C08.subobject_blocks" if fail["base"] else "C08.named_field"
            viol.append({"inv": inv, "cls": inv + "/result",
                         "detail": {"op": oi, "tree": tree, "failing": fail}})
            break
        if kind != "randomize" or prng.random() > 0.6:
            continue
        # single-field probes, sibling by sibling
        rp = w.rand_paths(p, tree)
        if not rp or len(rp) > 40:
            continue
        base = tuple(refsem._walk(tree, q) for q in rp)
        idxs = list(range(len(rp)))
        prng.shuffle(idxs)
        for i in idxs[:8]:
            dom = list(refsem.path_domain(P, pt.cname, rp[i]))
            v = prng.choice(dom)
            c = base[:i] + (v,) + base[i + 1:]
            t = refsem.copy_tree(tree)
            refsem.set_path(t, rp[i], v)
            try:
                f2 = refsem.check_tree(P, pt.cname, t, pt.modes, pt.rangelists)
            except refsem.RefError:
                stats["ambiguous_skipped"] += 1
                continue
            exp = f2 is None
            got = w.probe(p, list(zip(rp, c)))
            stats["probes"] += 1
            stats["probe_accept_expected" if exp else "probe_reject_expected"] += 1
            if got != exp:
                viol.append({"inv": "C08.sibling_alias", "cls": "C08.sibling_alias/" + ("accepts_excluded" if got else "rejects_allowed"),
                             "detail": {"op": oi, "field": rp[i], "value": v, "base": tree,
                                        "accepted": got, "expected": exp, "failing": f2}})
                break
        if viol:
            break
    sig = progs.shape_sig(rec["prog"]["classes"]) + "|" + scen.op_sig(rec["ops"])
    return {"viol": viol, "stats": stats, "digest": kernel.digest(obs),
            "sigs": [kernel.digest(sig)[:16]] if nontrivial and stats["judged_calls"] else [],
            "evals": stats["judged_calls"] + stats["probes"], "sim_ms": int(w.clock.elapsed * 1000)}

"""C07 - enforced blocks = most-derived, enabled, of this very instance."""
import random as _r

from .. import kernel, progs, refsem, scen
from ..kernel import Streams

ID = "C07"
LEVEL = "exploration"
RULE = ("one run = a generated class hierarchy (depth 1-3, overridden block names, trivial block "
        "bodies) plus a container class holding instances as sub-object and list elements; 2-5 "
        "co-existing parties of different levels created before and after toggles; 10-40 ops of "
        "obj.<block>.constraint_mode(bool) interleaved with randomize / randomize_with on all "
        "parties. After every toggle and call, for every party: returned values satisfy exactly the "
        "reference-enabled most-derived blocks of that instance, and pin-probes at mutated points agree "
        "with the reference verdict (a point only a disabled/overridden block excludes must be "
        "accepted; a point an enabled block excludes must be rejected). Non-trivial = >=1 toggle "
        "followed by >=1 probe on >=2 parties; distinct = (hierarchy shape, op 3-grams)."
        " The container's block may carry the name of a block of the objects it holds; witness oracle for spurious failures.")
REAL = ["pyvsc (all of src/vsc)", "PyBoolector"]
STUB = ["user code (generated)", "stdout (sink)"]
ASSUMPTIONS = ["block bodies are ranges / comparisons with same-signed literals, whose lowering is "
               "trivial, so a lowering defect cannot be mis-attributed to constraint_mode handling"]
REQUIRED_NONZERO = {"*": ["toggles", "probes", "probe_reject_expected", "probe_accept_expected",
                          "nested_toggles"]}


def budget(tier):
    if tier == "thorough":
        return {"runs": 3000, "wall": 3000}
    return {"runs": 480, "wall": 600}


def generate(seed, tier):
    st = Streams(seed)
    rng = st.prog
    depth = rng.choice([1, 2, 2, 3, 3])
    with_list = rng.random() < 0.4
    classes = progs.hierarchy(rng, depth, with_list=with_list)
    names = [c["name"] for c in classes]
    # container with a sub-object and a list of objects of hierarchy classes
    inner = rng.choice(names)
    inner2 = rng.choice(names)
    cont = {"name": "T0", "fields": [
        {"n": "x", "k": "s", "w": 3, "s": False, "r": True, "i": 0},
        {"n": "o", "k": "o", "c": inner, "r": True},
        {"n": "ol", "k": "lo", "c": inner2, "r": True, "sz": 0 if with_list else rng.randint(1, 2)}],
        "blocks": [{"n": "ct", "stmts": [progs.simple_stmt(rng, [{"n": "x", "k": "s", "w": 3, "s": False, "_p": ["x"]}])]}]}
    prog = {"enums": [], "classes": progs.strip(classes) + [cont]}
    P = refsem.Prog(prog)
    if rng.random() < 0.5:
        # the container's own block carries the name of a block of the objects it holds: a toggle
        # addressed to the container must not land on (or be answered by) the nested one
        inner_names = [b["n"] for b in P.blocks(inner)] + [b["n"] for b in P.blocks(inner2)]
        if inner_names:
            cont["blocks"][0]["n"] = rng.choice(inner_names)
    orng = st.ops
    n_parties = orng.randint(2, 4)
    party_cls = [orng.choice(names + ["T0"]) for _ in range(n_parties)]
    if "T0" not in party_cls and orng.random() < 0.6:
        party_cls[-1] = "T0"
    ops = []
    created = []

    def create(c):
        ops.append({"op": "new", "cls": c})
        created.append(c)
        ops.append({"op": "seed", "p": len(created) - 1, "k": st.lib.randint(0, 1 << 30)})

    first = orng.randint(1, n_parties)
    for c in party_cls[:first]:
        create(c)
    pending = party_cls[first:]
    n_ops = orng.randint(10, 30 if tier == "quick" else 60)
    for i in range(n_ops):
        if pending and orng.random() < 0.15:
            create(pending.pop(0))
            continue
        p = orng.randrange(len(created))
        c = created[p]
        r = orng.random()
        if r < 0.45:
            # toggle a block of the instance itself or of a nested instance
            path = []
            cn = c
            if c == "T0" and orng.random() < 0.7:
                if orng.random() < 0.5 or with_list:
                    path, cn = ["o"], inner
                else:
                    f = P.field("T0", "ol")
                    path, cn = ["ol", orng.randrange(f["sz"])], inner2
            blks = [b["n"] for b in P.blocks(cn)]
            ops.append({"op": "cmode", "p": p, "path": path, "block": orng.choice(blks),
                        "on": orng.random() < 0.35})
        elif with_list and r < 0.58:
            # the list grows (or is cleared) while blocks may be switched off
            lp = ["o", "lst"] if c == "T0" else ["lst"]
            if orng.random() < 0.8:
                ops.append({"op": "lappend", "p": p, "path": lp, "v": orng.randint(0, 7)})
            else:
                ops.append({"op": "lclear", "p": p, "path": lp})
        elif r < 0.85:
            ops.append({"op": "randomize", "p": p})
        else:
            fs = progs.fields_with_paths({"fields": P.fields(c)})[0]
            fs = [f for f in fs if f["k"] == "s"]
            ops.append({"op": "rw", "p": p,
                        "inline": [progs.simple_stmt(orng, fs)] if fs else []})
    if with_list:
        # episodes: block off, calls, the list grows, block on again, calls
        fe = [b for b in P.blocks(names[-1]) if b["n"].endswith("fe")][0]["n"]
        for _ in range(orng.randint(1, 2)):
            cands = [i for i, c in enumerate(created)]
            p = orng.choice(cands)
            c = created[p]
            path = ["o"] if c == "T0" else []
            lp = path + ["lst"]
            ep = [{"op": "cmode", "p": p, "path": path, "block": fe, "on": False},
                  {"op": "randomize", "p": p}]
            for _k in range(orng.randint(1, 3)):
                ep.append({"op": "lappend", "p": p, "path": lp, "v": orng.randint(0, 7)})
            ep += [{"op": "cmode", "p": p, "path": path, "block": fe, "on": True},
                   {"op": "randomize", "p": p}, {"op": "randomize", "p": p}]
            at = orng.randint(2 * len(created), len(ops))
            ops[at:at] = ep
    for c in pending:
        create(c)
        ops.append({"op": "randomize", "p": len(created) - 1})
    return {"prop": ID, "seed": seed, "prog": prog, "ops": ops,
            "probe_seed": st.fault.randint(0, 1 << 30)}


def sample(rec):
    return {"seed": rec["seed"], "prog": rec["prog"], "ops": rec["ops"][:14], "n_ops": len(rec["ops"])}


def shrink(rec):
    return progs.shrink_record(rec, limit=120)


def tags(rec, viol):
    return []


def execute(rec):
    from .. import randworld
    P = refsem.Prog(rec["prog"])
    w = randworld.World(rec["prog"])
    prng = _r.Random(rec["probe_seed"])
    stats = {"toggles": 0, "probes": 0, "probe_reject_expected": 0, "probe_accept_expected": 0,
             "nested_toggles": 0, "calls": 0, "solvefail": 0, "judged_calls": 0}
    viol = []
    obs = []
    toggled = False
    probed_parties = set()

    def probe_party(p, oi, why):
        pt = w.parties[p]
        cur = w.tree(p)
        rp = w.rand_paths(p, cur)
        if not rp:
            return False
        doms = [list(refsem.path_domain(P, pt.cname, q)) for q in rp]
        base = tuple(refsem._walk(cur, q) for q in rp)
        pts = []
        for _ in range(4):
            i = prng.randrange(len(rp))
            pts.append(base[:i] + (prng.choice(doms[i]),) + base[i + 1:])
        pts.append(tuple(prng.choice(d) for d in doms))
        for c in pts:
            t = refsem.copy_tree(cur)
            for q, v in zip(rp, c):
                refsem.set_path(t, q, v)
            exp = refsem.check_tree(P, pt.cname, t, pt.modes, pt.rangelists) is None
            got = w.probe(p, list(zip(rp, c)))
            stats["probes"] += 1
            stats["probe_accept_expected" if exp else "probe_reject_expected"] += 1
            probed_parties.add(p)
            if got != exp:
                viol.append({"inv": "C07.enabled_set" if why == "self" else "C07.cross_instance",
                             "cls": "C07.%s/%s" % ("enabled_set" if why == "self" else "cross_instance",
                                                   "accepts_excluded" if got else "rejects_allowed"),
                             "detail": {"op": oi, "party": p, "cls": pt.cname, "point": list(zip(rp, c)),
                                        "accepted": got, "expected": exp, "modes": pt.modes,
                                        "failing": refsem.check_tree(P, pt.cname, t, pt.modes, pt.rangelists)}})
                return True
        return False

    for oi, op in enumerate(rec["ops"]):
        if "p" in op and op["p"] >= len(w.parties):
            continue
        kind = op["op"]
        witness = w.witness(op)
        pre = w.tree(op["p"]) if witness else None
        out = w.apply(op)
        if kind == "cmode":
            stats["toggles"] += 1
            toggled = True
            if op.get("path"):
                stats["nested_toggles"] += 1
            obs.append((oi, kind, out["st"]))
            if out["st"] != "ok":
                viol.append({"inv": "C07.enabled_set", "cls": "C07.enabled_set/toggle_raised",
                             "detail": {"op": oi, "outcome": out}})
                break
            # the toggled party and every other party
            if probe_party(op["p"], oi, "self"):
                break
            others = [q for q in range(len(w.parties)) if q != op["p"]]
            if others and probe_party(prng.choice(others), oi, "other"):
                break
            continue
        if kind in ("randomize", "rw"):
            p = op["p"]
            pt = w.parties[p]
            stats["calls"] += 1
            if out["st"] == "solvefail":
                stats["solvefail"] += 1
                obs.append((oi, kind, "solvefail"))
                if witness:
                    # the pre-call values satisfy every enabled most-derived block: a block that
                    # is off / overridden (or another instance's) must be what made it fail
                    viol.append({"inv": "C07.enabled_set", "cls": "C07.enabled_set/fails_with_witness",
                                 "detail": {"op": oi, "party": p, "cls": pt.cname, "state": pre,
                                            "modes": pt.modes}})
                    break
                continue
            if out["st"] != "ok":
                obs.append((oi, kind, out["st"], out.get("exc")))
                continue
            if witness:
                stats["witness_calls"] = stats.get("witness_calls", 0) + 1
            tree = w.tree(p)
            obs.append((oi, kind, "ok", tree))
            fail = refsem.check_tree(P, pt.cname, tree, pt.modes, pt.rangelists, op.get("inline"))
            stats["judged_calls"] += 1
            if fail is not None:
                viol.append({"inv": "C07.most_derived" if fail["block"] != "<inline>" else "C07.enabled_set",
                             "cls": "C07.enabled_set/result_violates_enabled_block",
                             "detail": {"op": oi, "party": p, "cls": pt.cname, "tree": tree,
                                        "failing": fail, "modes": pt.modes}})
                break
            if prng.random() < 0.3 and probe_party(p, oi, "self"):
                break
            continue
        obs.append((oi, kind, out["st"]))
    sig = progs.shape_sig(rec["prog"]["classes"]) + "|" + scen.op_sig(rec["ops"])
    return {"viol": viol, "stats": stats, "digest": kernel.digest(obs),
            "sigs": [kernel.digest(sig)[:16]] if toggled and len(probed_parties) >= 2 else [],
            "evals": stats["judged_calls"] + stats["probes"],
            "sim_ms": int(w.clock.elapsed * 1000)}

"""C20 - solve_order decouples the earlier variable's distribution from the later one."""
import itertools
import random as _r

from .. import kernel, progs, refsem, scen, statcheck
from ..kernel import Streams

ID = "C20"
LEVEL = "exploration"
RULE = ("one run = a small-domain system with ordering directives (solve_order(a,b), lists of fields, "
        "chains a before b before c) in which the number of b (and c) companions differs strongly "
        "between a values (implies / if-else on a == k restricting b to sets of very different size). "
        "Every step: all constraints hold, a satisfiable system never fails, no internal exception, "
        "with plain and inline calls. Frequency: when the reference enumeration shows that every value "
        "of a is feasible and nothing narrows a's inferred range, N seeded draws (1500 quick / 6000 "
        "thorough); each a value's count against 1/|A| by exact two-sided binomial tail, family-wise "
        "bound 1e-9 per invocation. The same system with the b-companion sets multiplied (metamorphic "
        "partner) is judged by the same bound. Non-trivial = frequency judged on a system whose "
        "companion counts differ by >= 4x; distinct = (system shape, companion-size profile).")
REAL = ["pyvsc (all of src/vsc)", "PyBoolector", "Python random (RandState)"]
STUB = ["user code (generated)", "stdout (sink)"]
ASSUMPTIONS = ["uniformity is only claimed when a's feasible values fill its inferred range (no top-level "
               "constraint on a); distribution shifts below ~6 sigma at N pass"]
REQUIRED_NONZERO = {"*": ["hard_calls", "freq_tests", "freq_systems", "chain_systems", "list_systems"]}
TECHNIQUE = ("deterministic simulation: seeded call sequences with per-step constraint oracle and exact "
             "binomial tail bounds on the ordered variable's histogram")


def budget(tier):
    if tier == "thorough":
        return {"runs": 1200, "wall": 3000}
    return {"runs": 192, "wall": 600}


def generate(seed, tier):
    st = Streams(seed)
    rng = st.prog
    wa = rng.choice([1, 2, 2, 3])
    wb = rng.choice([3, 4, 5])
    kind = rng.choice(["pair", "pair", "chain", "list"])
    fields = [{"n": "a", "k": "s", "w": wa, "s": False, "r": True, "i": 0},
              {"n": "b", "k": "s", "w": wb, "s": False, "r": True, "i": 0}]
    stmts = []
    if kind == "chain":
        fields.append({"n": "c", "k": "s", "w": rng.choice([2, 3]), "s": False, "r": True, "i": 0})
        stmts.append({"t": "solve_order", "before": [["a"]], "after": [["b"]]})
        stmts.append({"t": "solve_order", "before": [["b"]], "after": [["c"]]})
    elif kind == "list":
        fields.append({"n": "c", "k": "s", "w": rng.choice([1, 2]), "s": False, "r": True, "i": 0})
        stmts.append({"t": "solve_order", "before": [["a"], ["c"]], "after": [["b"]], "aslist": True})
    else:
        stmts.append({"t": "solve_order", "before": [["a"]], "after": [["b"]]})
    bmax = (1 << wb) - 1
    avals = list(range(1 << wa))
    small = rng.sample(avals, rng.randint(1, max(1, len(avals) // 2)))
    mult = rng.choice([1, 1, 2])            # metamorphic knob: companion multiplier
    for k in small:
        n_comp = rng.choice([1, 1, 2]) * mult
        lo = rng.randint(0, bmax - n_comp + 1)
        body = [progs.EXPR({"t": "in", "e": progs.F("b"), "rl": [[lo, lo + n_comp - 1]]})]
        if rng.random() < 0.5:
            stmts.append({"t": "implies", "c": progs.BIN("==", progs.F("a"), progs.LIT(k)), "body": body})
        else:
            stmts.append({"t": "if", "c": progs.BIN("==", progs.F("a"), progs.LIT(k)), "then": body,
                          "elifs": [], "else": None})
    if kind in ("chain", "list") and rng.random() < 0.7:
        if kind == "chain":
            stmts.append(progs.EXPR(progs.BIN("<=", progs.F("c"), progs.F("b"))))
        else:
            stmts.append({"t": "implies", "c": progs.BIN("==", progs.F("c"), progs.LIT(0)),
                          "body": [progs.EXPR(progs.BIN("<", progs.F("b"), progs.LIT(max(2, bmax // 2))))]})
    prog = {"enums": [], "top": "K0",
            "classes": [{"name": "K0", "fields": fields, "blocks": [{"n": "c0", "stmts": stmts}]}]}
    orng = st.ops
    ops = [{"op": "new", "cls": "K0"}, {"op": "seed", "p": 0, "k": st.lib.randint(0, 1 << 30)}]
    own = [dict(f, _p=[f["n"]]) for f in fields if f["n"] != "a"]
    for _ in range(orng.randint(4, 10)):
        if orng.random() < 0.7:
            ops.append({"op": "randomize", "p": 0})
        else:
            ops.append({"op": "rw", "p": 0, "inline": [progs.simple_stmt(orng, own)]})
    return {"prop": ID, "seed": seed, "prog": prog, "ops": ops, "kind": kind,
            "n": 1500 if tier == "quick" else 6000, "k": st.lib.randint(0, 1 << 30)}


def sample(rec):
    return {"seed": rec["seed"], "kind": rec["kind"], "prog": rec["prog"], "ops": rec["ops"][:6], "n": rec["n"]}


def _n_so(rec):
    return str(rec["prog"]).count("'solve_order'")


def shrink(rec):
    # the ordering directives are the subject: never shrink them away
    n = _n_so(rec)
    return [c for c in progs.shrink_record(rec, limit=200) if _n_so(c) == n][:100]


def tags(rec, viol):
    return ["kind:" + rec["kind"]]


def execute(rec):
    from .. import randworld
    P = refsem.Prog(rec["prog"])
    w = randworld.World(rec["prog"])
    stats = {"hard_calls": 0, "freq_tests": 0, "freq_systems": 0, "chain_systems": 0, "list_systems": 0,
             "draws": 0, "skew4x_systems": 0, "sat_calls": 0}
    viol = []
    obs = []
    if rec["kind"] == "chain":
        stats["chain_systems"] = 1
    if rec["kind"] == "list":
        stats["list_systems"] = 1
    # reference enumeration
    names = [f["n"] for f in P.fields("K0")]
    doms = [list(refsem.path_domain(P, "K0", [n])) for n in names]
    sols = []
    t = {n: 0 for n in names}
    for combo in itertools.product(*doms):
        for n, v in zip(names, combo):
            t[n] = v
        if refsem.check_tree(P, "K0", t) is None:
            sols.append(combo)
    ai = names.index("a")
    comp = {}
    for s in sols:
        comp[s[ai]] = comp.get(s[ai], 0) + 1
    nontrivial = False
    for oi, op in enumerate(rec["ops"]):
        if "p" in op and op["p"] >= len(w.parties):
            continue
        out = w.apply(op)
        if op["op"] not in ("randomize", "rw"):
            obs.append((oi, op["op"], out["st"]))
            continue
        stats["hard_calls"] += 1
        if out["st"] == "exc":
            viol.append({"inv": "C20.spurious_failure", "cls": "C20.exception/%s/%s" % (out.get("exc"), out.get("where")),
                         "detail": {"op": oi, "outcome": out}})
            break
        inline = op.get("inline")
        if inline:
            sat = False
            for s in sols:
                for n, v in zip(names, s):
                    t[n] = v
                if refsem.check_tree(P, "K0", t, None, None, inline) is None:
                    sat = True
                    break
        else:
            sat = bool(sols)
        if out["st"] == "solvefail":
            obs.append((oi, op["op"], "solvefail"))
            if sat:
                viol.append({"inv": "C20.spurious_failure", "cls": "C20.spurious_failure",
                             "detail": {"op": oi, "inline": inline, "n_solutions": len(sols)}})
                break
            continue
        tree = w.tree(0)
        obs.append((oi, op["op"], "ok", tree))
        stats["sat_calls"] += 1
        fail = refsem.check_tree(P, "K0", tree, None, None, inline)
        if fail is not None:
            viol.append({"inv": "C20.hard_holds", "cls": "C20.hard_holds",
                         "detail": {"op": oi, "tree": tree, "failing": fail}})
            break
    # variables solved together with a (list form): a's distribution is only
    # independent of them if every combination of the 'before' variables is feasible
    joint_ok = True
    if rec["kind"] == "list":
        ci = names.index("c")
        pairs = set((s[ai], s[ci]) for s in sols)
        joint_ok = len(pairs) == len(doms[ai]) * len(doms[ci])
    if not viol and joint_ok and len(comp) == len(doms[ai]) and len(w.parties) > 0:
        # every value of a is feasible and nothing narrows a's range: uniform expected
        stats["freq_systems"] = 1
        if max(comp.values()) >= 4 * min(comp.values()):
            stats["skew4x_systems"] = 1
            nontrivial = True
        w.apply({"op": "seed", "p": 0, "k": rec["k"]})
        obj = w.parties[0].obj
        n = rec["n"]
        counts = {v: 0 for v in doms[ai]}
        for _ in range(n):
            obj.randomize()
            counts[int(obj.a)] += 1
        stats["draws"] = n
        obs.append(sorted(counts.items()))
        p = 1.0 / len(doms[ai])
        for v in doms[ai]:
            ok, tail = statcheck.binom_ok(counts[v], n, p)
            stats["freq_tests"] += 1
            if not ok:
                viol.append({"inv": "C20.frequency", "cls": "C20.frequency",
                             "detail": {"a": v, "count": counts[v], "n": n, "p": p, "tail": tail,
                                        "sigma": statcheck.sigma(counts[v], n, p),
                                        "counts": sorted(counts.items()),
                                        "companions": sorted(comp.items())}})
                break
    sig = rec["kind"] + "|" + progs.shape_sig(rec["prog"]["classes"]) + "|" + \
        kernel.digest(sorted(comp.values()))[:8]
    return {"viol": viol, "stats": stats, "digest": kernel.digest(obs),
            "sigs": [kernel.digest(sig)[:16]] if (nontrivial or stats["sat_calls"]) else [],
            "evals": stats["hard_calls"] + stats["freq_tests"],
            "sim_ms": int(w.clock.elapsed * 1000) + stats["draws"]}

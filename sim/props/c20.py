"""C20 - solve_order decouples the earlier variable's distribution from the later one."""
import itertools
import random as _r

from .. import kernel, progs, refsem, scen, statcheck
from ..kernel import Streams

ID = "C20"
LEVEL = "exploration"
RULE = ("one run = a small-domain system with ordering directives (solve_order(a,b), lists of fields, "
        "chains a before b before c) in which the number of b (and c) companions differs strongly "
        "between a values (implies / if-else on a == k restricting b to sets of very different size). "
        "Every step: all constraints hold, a satisfiable system never fails, no internal exception, "
        "with plain and inline calls. Frequency: when the reference enumeration shows that every value "
        "of a is feasible and nothing narrows a's inferred range, N seeded draws (1500 quick / 6000 "
        "thorough); each a value's count against 1/|A| by exact two-sided binomial tail, family-wise "
        "bound 1e-9 per invocation. The same system with the b-companion sets multiplied (metamorphic "
        "partner) is judged by the same bound. Non-trivial = frequency judged on a system whose "
        "companion counts differ by >= 4x; distinct = (system shape, companion-size profile)."
        " Further scenario kinds: several directives naming the same 'after' field (a and b judged, every (a,b) combination feasible) and a list as the 'after' operand.")
REAL = ["pyvsc (all of src/vsc)", "PyBoolector", "Python random (RandState)"]
STUB = ["user code (generated)", "stdout (sink)"]
ASSUMPTIONS = ["uniformity is only claimed when a's feasible values fill its inferred range (no top-level "
               "constraint on a); distribution shifts below ~6 sigma at N pass"]
REQUIRED_NONZERO = {"*": ["hard_calls", "freq_tests", "freq_systems", "chain_systems", "list_systems", "relists"]}
TECHNIQUE = ("deterministic simulation: seeded call sequences with per-step constraint oracle and exact "
             "binomial tail bounds on the ordered variable's histogram")


def budget(tier):
    if tier == "thorough":
        return {"runs": 600, "wall": 3000}
    return {"runs": 192, "wall": 600}


def generate(seed, tier):
    st = Streams(seed)
    rng = st.prog
    wa = rng.choice([1, 2, 2, 3])
    wb = rng.choice([3, 4, 5])
    kind = rng.choice(["pair", "pair", "chain", "list", "chain_bc", "chain_bc", "listop",
                       "shared_after", "shared_after", "after_list"])
    if kind == "chain_bc":
        return gen_chain_bc(st, seed, tier)
    if kind == "shared_after":
        return gen_shared_after(st, seed, tier)
    if kind == "after_list":
        return gen_after_list(st, seed, tier)
    if kind == "listop":
        return gen_listop(st, seed, tier)
    fields = [{"n": "a", "k": "s", "w": wa, "s": False, "r": True, "i": 0},
              {"n": "b", "k": "s", "w": wb, "s": False, "r": True, "i": 0}]
    stmts = []
    if kind == "chain":
        fields.append({"n": "c", "k": "s", "w": rng.choice([2, 3]), "s": False, "r": True, "i": 0})
        stmts.append({"t": "solve_order", "before": [["a"]], "after": [["b"]]})
        stmts.append({"t": "solve_order", "before": [["b"]], "after": [["c"]]})
    elif kind == "list":
        fields.append({"n": "c", "k": "s", "w": rng.choice([1, 2]), "s": False, "r": True, "i": 0})
        stmts.append({"t": "solve_order", "before": [["a"], ["c"]], "after": [["b"]], "aslist": True})
    else:
        stmts.append({"t": "solve_order", "before": [["a"]], "after": [["b"]]})
    bmax = (1 << wb) - 1
    avals = list(range(1 << wa))
    small = rng.sample(avals, rng.randint(1, max(1, len(avals) // 2)))
    mult = rng.choice([1, 1, 2])            # metamorphic knob: companion multiplier
    for k in small:
        n_comp = rng.choice([1, 1, 2]) * mult
        lo = rng.randint(0, bmax - n_comp + 1)
        body = [progs.EXPR({"t": "in", "e": progs.F("b"), "rl": [[lo, lo + n_comp - 1]]})]
        if rng.random() < 0.5:
            stmts.append({"t": "implies", "c": progs.BIN("==", progs.F("a"), progs.LIT(k)), "body": body})
        else:
            stmts.append({"t": "if", "c": progs.BIN("==", progs.F("a"), progs.LIT(k)), "then": body,
                          "elifs": [], "else": None})
    if kind in ("chain", "list") and rng.random() < 0.7:
        if kind == "chain":
            stmts.append(progs.EXPR(progs.BIN("<=", progs.F("c"), progs.F("b"))))
        else:
            stmts.append({"t": "implies", "c": progs.BIN("==", progs.F("c"), progs.LIT(0)),
                          "body": [progs.EXPR(progs.BIN("<", progs.F("b"), progs.LIT(max(2, bmax // 2))))]})
    prog = {"enums": [], "top": "K0",
            "classes": [{"name": "K0", "fields": fields, "blocks": [{"n": "c0", "stmts": stmts}]}]}
    orng = st.ops
    ops = [{"op": "new", "cls": "K0"}, {"op": "seed", "p": 0, "k": st.lib.randint(0, 1 << 30)}]
    own = [dict(f, _p=[f["n"]]) for f in fields if f["n"] != "a"]
    for _ in range(orng.randint(4, 10)):
        if orng.random() < 0.7:
            ops.append({"op": "randomize", "p": 0})
        else:
            ops.append({"op": "rw", "p": 0, "inline": [progs.simple_stmt(orng, own)]})
    return {"prop": ID, "seed": seed, "prog": prog, "ops": ops, "kind": kind,
            "n": 1500 if tier == "quick" else 6000, "k": st.lib.randint(0, 1 << 30)}


def gen_chain_bc(st, seed, tier):
    """chain a before b before c where only b and c are related: b must be uniform however
    many c values accompany each b value, whichever field the statements mention first"""
    rng = st.prog
    wa, wb, wc = rng.choice([1, 2]), rng.choice([2, 3]), rng.choice([3, 4])
    fields = [{"n": n, "k": "s", "w": w_, "s": False, "r": True, "i": 0}
              for n, w_ in (("a", wa), ("b", wb), ("c", wc))]
    stmts = [{"t": "solve_order", "before": [["a"]], "after": [["b"]]},
             {"t": "solve_order", "before": [["b"]], "after": [["c"]]}]
    cmax = (1 << wc) - 1
    cons = []
    for k in rng.sample(range(1 << wb), rng.randint(1, max(1, (1 << wb) // 2))):
        lo = rng.randint(0, cmax - 1)
        c_in = {"t": "in", "e": progs.F("c"), "rl": [[lo, lo + rng.choice([0, 1])]]}
        b_ne = progs.BIN("!=", progs.F("b"), progs.LIT(k))
        if rng.random() < 0.5:
            cons.append(progs.EXPR(progs.BIN("|", c_in, b_ne)))          # mentions c first
        else:
            cons.append({"t": "implies", "c": progs.BIN("==", progs.F("b"), progs.LIT(k)),
                         "body": [progs.EXPR(c_in)]})
    if rng.random() < 0.5:
        stmts = cons + stmts
    else:
        stmts = stmts + cons
    prog = {"enums": [], "top": "K0",
            "classes": [{"name": "K0", "fields": fields, "blocks": [{"n": "c0", "stmts": stmts}]}]}
    ops = [{"op": "new", "cls": "K0"}, {"op": "seed", "p": 0, "k": st.lib.randint(0, 1 << 30)},
           {"op": "randomize", "p": 0}, {"op": "randomize", "p": 0}]
    return {"prop": ID, "seed": seed, "prog": prog, "ops": ops, "kind": "chain_bc", "judge": ["a", "b"],
            "n": 1500 if tier == "quick" else 6000, "k": st.lib.randint(0, 1 << 30)}


def gen_shared_after(st, seed, tier):
    """two (or three) directives name the same 'after' field: solve_order(a, c); solve_order(b, c).
    a and b are each related to c only (upper bounds for a's values, lower bounds for b's, chosen so
    that every (a, b) combination stays feasible); both must come out uniform"""
    rng = st.prog
    wa, wb, wc = rng.choice([1, 2]), rng.choice([1, 2]), rng.choice([3, 4])
    fields = [{"n": n, "k": "s", "w": w_, "s": False, "r": True, "i": 0}
              for n, w_ in (("a", wa), ("b", wb), ("c", wc))]
    so = [{"t": "solve_order", "before": [["a"]], "after": [["c"]]},
          {"t": "solve_order", "before": [["b"]], "after": [["c"]]}]
    if rng.random() < 0.3:
        so.append({"t": "solve_order", "before": [["a"]], "after": [["b"]]})
    rng.shuffle(so)
    cmax = (1 << wc) - 1
    mid = cmax // 2
    cons = []
    for k in rng.sample(range(1 << wa), rng.randint(1, max(1, (1 << wa) // 2))):
        cons.append({"t": "implies", "c": progs.BIN("==", progs.F("a"), progs.LIT(k)),
                     "body": [progs.EXPR(progs.BIN("<=", progs.F("c"), progs.LIT(rng.randint(mid, mid + 1))))]})
    for k in rng.sample(range(1 << wb), rng.randint(1, max(1, (1 << wb) // 2))):
        cons.append({"t": "implies", "c": progs.BIN("==", progs.F("b"), progs.LIT(k)),
                     "body": [progs.EXPR(progs.BIN(">=", progs.F("c"), progs.LIT(rng.randint(mid - 1, mid))))]})
    stmts = (cons + so) if rng.random() < 0.5 else (so + cons)
    prog = {"enums": [], "top": "K0",
            "classes": [{"name": "K0", "fields": fields, "blocks": [{"n": "c0", "stmts": stmts}]}]}
    ops = [{"op": "new", "cls": "K0"}, {"op": "seed", "p": 0, "k": st.lib.randint(0, 1 << 30)},
           {"op": "randomize", "p": 0}, {"op": "randomize", "p": 0}]
    return {"prop": ID, "seed": seed, "prog": prog, "ops": ops, "kind": "shared_after", "judge": ["a", "b"],
            "joint": ["a", "b"], "n": 1500 if tier == "quick" else 6000, "k": st.lib.randint(0, 1 << 30)}


def gen_after_list(st, seed, tier):
    """the 'after' operand is a list: solve_order(a, lst); a's values differ in how many list
    contents accompany them"""
    rng = st.prog
    wa, wl = rng.choice([1, 2]), rng.choice([2, 3])
    fields = [{"n": "a", "k": "s", "w": wa, "s": False, "r": True, "i": 0},
              {"n": "lst", "k": "l", "w": wl, "s": False, "r": True, "rsz": False, "sz": rng.choice([2, 3])}]
    lmax = (1 << wl) - 1
    stmts = [{"t": "solve_order", "before": [["a"]], "after": [["lst"]]}]
    for k in rng.sample(range(1 << wa), rng.randint(1, max(1, (1 << wa) // 2))):
        lo = rng.randint(0, lmax - 1)
        stmts.append({"t": "implies", "c": progs.BIN("==", progs.F("a"), progs.LIT(k)),
                      "body": [progs.EXPR({"t": "in", "e": progs.F("lst", rng.randrange(2)),
                                           "rl": [[lo, lo + rng.choice([0, 1])]]})]})
    if rng.random() < 0.5:
        stmts = stmts[1:] + stmts[:1]
    prog = {"enums": [], "top": "K0",
            "classes": [{"name": "K0", "fields": fields, "blocks": [{"n": "c0", "stmts": stmts}]}]}
    ops = [{"op": "new", "cls": "K0"}, {"op": "seed", "p": 0, "k": st.lib.randint(0, 1 << 30)},
           {"op": "randomize", "p": 0}, {"op": "randomize", "p": 0}]
    return {"prop": ID, "seed": seed, "prog": prog, "ops": ops, "kind": "after_list", "judge": ["a"],
            "n": 1500 if tier == "quick" else 6000, "k": st.lib.randint(0, 1 << 30)}


def gen_listop(st, seed, tier):
    """solve_order with a list operand; the list's elements are replaced (same length) between two
    phases of draws"""
    rng = st.prog
    wl, wx = 2, rng.choice([3, 4])
    fields = [{"n": "l", "k": "l", "w": wl, "s": False, "r": True, "rsz": False, "sz": 2},
              {"n": "x", "k": "s", "w": wx, "s": False, "r": True, "i": 0}]
    xmax = (1 << wx) - 1
    stmts = [{"t": "solve_order", "before": [["l"]], "after": [["x"]]}]
    for k in rng.sample(range(1 << wl), rng.randint(1, 2)):
        lo = rng.randint(0, xmax - 1)
        stmts.append({"t": "implies", "c": progs.BIN("==", progs.F("l", 0), progs.LIT(k)),
                      "body": [progs.EXPR({"t": "in", "e": progs.F("x"), "rl": [[lo, lo + rng.choice([0, 1])]]})]})
    prog = {"enums": [], "top": "K0",
            "classes": [{"name": "K0", "fields": fields, "blocks": [{"n": "c0", "stmts": stmts}]}]}
    ops = [{"op": "new", "cls": "K0"}, {"op": "seed", "p": 0, "k": st.lib.randint(0, 1 << 30)},
           {"op": "randomize", "p": 0}]
    return {"prop": ID, "seed": seed, "prog": prog, "ops": ops, "kind": "listop", "judge": [["l", 0]],
            "phase2": {"relist": "l"}, "n": 1500 if tier == "quick" else 6000,
            "k": st.lib.randint(0, 1 << 30)}


def sample(rec):
    return {"seed": rec["seed"], "kind": rec["kind"], "prog": rec["prog"], "ops": rec["ops"][:6], "n": rec["n"]}


def _n_so(rec):
    return str(rec["prog"]).count("'solve_order'")


def shrink(rec):
    # the ordering directives are the subject: never shrink them away
    n = _n_so(rec)
    return [c for c in progs.shrink_record(rec, limit=200) if _n_so(c) == n][:100]


def tags(rec, viol):
    return ["kind:" + rec["kind"]]


def execute(rec):
    from .. import randworld
    P = refsem.Prog(rec["prog"])
    w = randworld.World(rec["prog"])
    stats = {"hard_calls": 0, "freq_tests": 0, "freq_systems": 0, "chain_systems": 0, "list_systems": 0,
             "draws": 0, "skew4x_systems": 0, "sat_calls": 0}
    viol = []
    obs = []
    if rec["kind"] == "chain":
        stats["chain_systems"] = 1
    if rec["kind"] == "list":
        stats["list_systems"] = 1
    # reference enumeration
    tree0 = {}
    for f in P.fields("K0"):
        tree0[f["n"]] = [0] * f.get("sz", 0) if f["k"] == "l" else 0
    rpaths = refsem.rand_scalar_paths(P, "K0", tree0)
    names = [refsem.path_key(q) for q in rpaths]
    doms = [list(refsem.path_domain(P, "K0", q)) for q in rpaths]
    sols = refsem.enumerate_solutions(P, "K0", tree0, rpaths, limit=1 << 16)
    t = refsem.copy_tree(tree0)
    ai = names.index("a") if "a" in names else 0
    comp = {}
    for s in sols:
        comp[s[ai]] = comp.get(s[ai], 0) + 1
    nontrivial = False
    for oi, op in enumerate(rec["ops"]):
        if "p" in op and op["p"] >= len(w.parties):
            continue
        out = w.apply(op)
        if op["op"] not in ("randomize", "rw"):
            obs.append((oi, op["op"], out["st"]))
            continue
        stats["hard_calls"] += 1
        if out["st"] == "exc":
            viol.append({"inv": "C20.spurious_failure", "cls": "C20.exception/%s/%s" % (out.get("exc"), out.get("where")),
                         "detail": {"op": oi, "outcome": out}})
            break
        inline = op.get("inline")
        if inline:
            sat = False
            for s in sols:
                for q, v in zip(rpaths, s):
                    refsem.set_path(t, q, v)
                if refsem.check_tree(P, "K0", t, None, None, inline) is None:
                    sat = True
                    break
        else:
            sat = bool(sols)
        if out["st"] == "solvefail":
            obs.append((oi, op["op"], "solvefail"))
            if sat:
                viol.append({"inv": "C20.spurious_failure", "cls": "C20.spurious_failure",
                             "detail": {"op": oi, "inline": inline, "n_solutions": len(sols)}})
                break
            continue
        tree = w.tree(0)
        obs.append((oi, op["op"], "ok", tree))
        stats["sat_calls"] += 1
        fail = refsem.check_tree(P, "K0", tree, None, None, inline)
        if fail is not None:
            viol.append({"inv": "C20.hard_holds", "cls": "C20.hard_holds",
                         "detail": {"op": oi, "tree": tree, "failing": fail}})
            break
    # which variables are judged for uniformity
    judge = rec.get("judge") or ["a"]
    joint_ok = True
    if rec["kind"] == "list":
        ci = names.index("c")
        pairs = set((s[ai], s[ci]) for s in sols)
        joint_ok = len(pairs) == len(doms[ai]) * len(doms[ci])
    if rec.get("joint"):
        # every combination of the ordered variables must be feasible, else 'uniform' is not implied
        cols = [names.index(x) for x in rec["joint"]]
        combos = set(tuple(s_[c_] for c_ in cols) for s_ in sols)
        n_all = 1
        for c_ in cols:
            n_all *= len(doms[c_])
        joint_ok = len(combos) == n_all
        stats["chain_systems"] += 1
    if rec["kind"] == "after_list":
        stats["list_systems"] += 1
    if rec["kind"] in ("chain_bc", "listop"):
        stats["chain_systems"] += 1 if rec["kind"] == "chain_bc" else 0
        stats["list_systems"] += 1 if rec["kind"] == "listop" else 0
    phases = [None] + ([rec["phase2"]] if rec.get("phase2") else [])
    if not viol and joint_ok and len(w.parties) > 0:
        obj = w.parties[0].obj
        for ph in phases:
            if viol:
                break
            if ph is not None and ph.get("relist"):
                # replace the list's elements, same length
                l = getattr(obj, ph["relist"])
                vals = [int(v) for v in l]
                l.clear()
                for v in vals:
                    l.append(v)
                stats["relists"] = stats.get("relists", 0) + 1
            w.apply({"op": "seed", "p": 0, "k": rec["k"]})
            n = rec["n"]
            tallies = {}
            for jv in judge:
                tallies[str(jv)] = {}
            for _ in range(n):
                obj.randomize()
                for jv in judge:
                    v = int(getattr(obj, jv)) if isinstance(jv, str) else int(getattr(obj, jv[0])[jv[1]])
                    tallies[str(jv)][v] = tallies[str(jv)].get(v, 0) + 1
            stats["draws"] += n
            for jv in judge:
                # feasible values of the judged variable, from the reference enumeration
                col = names.index(jv if isinstance(jv, str) else refsem.path_key(jv))
                feas = sorted(set(s[col] for s in sols))
                full = len(feas) == len(doms[col])
                dom_j = doms[col]
                if not full:
                    continue
                stats["freq_systems"] += 1
                comp_j = {}
                for s_ in sols:
                    comp_j[s_[col]] = comp_j.get(s_[col], 0) + 1
                if max(comp_j.values()) >= 4 * min(comp_j.values()):
                    stats["skew4x_systems"] += 1
                    nontrivial = True
                p_ = 1.0 / len(dom_j)
                counts = tallies[str(jv)]
                obs.append(sorted(counts.items()))
                for v in dom_j:
                    ok, tail = statcheck.binom_ok(counts.get(v, 0), n, p_)
                    stats["freq_tests"] += 1
                    if not ok:
                        viol.append({"inv": "C20.frequency", "cls": "C20.frequency",
                                     "detail": {"var": jv, "value": v, "count": counts.get(v, 0), "n": n,
                                                "p": p_, "tail": tail, "phase": 0 if ph is None else 1,
                                                "sigma": statcheck.sigma(counts.get(v, 0), n, p_),
                                                "counts": sorted(counts.items()),
                                                "companions": sorted(comp_j.items())}})
                        break
                if viol:
                    break
    sig = rec["kind"] + "|" + progs.shape_sig(rec["prog"]["classes"]) + "|" + \
        kernel.digest(sorted(comp.values()))[:8]
    return {"viol": viol, "stats": stats, "digest": kernel.digest(obs),
            "sigs": [kernel.digest(sig)[:16]] if (nontrivial or stats["sat_calls"]) else [],
            "evals": stats["hard_calls"] + stats["freq_tests"],
            "sim_ms": int(w.clock.elapsed * 1000) + stats["draws"]}

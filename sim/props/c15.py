"""C15 - dist and weighted selection follow their weights; zero weight means never."""
import random as _r

from .. import kernel, progs, refsem, scen, statcheck
from ..kernel import Streams

ID = "C15"
LEVEL = "exploration"
RULE = ("one run is one of three seeded scenarios. 'hard': a small program with a dist statement (values, "
        "ranges, zero weights, weights given by non-random fields) plus arbitrary other constraints on "
        "the same and other fields, 8-24 calls with the weight fields re-assigned between calls; every "
        "returned value must be a listed value/range with non-zero weight and all constraints hold. "
        "'freq': a field constrained only by dist, N seeded draws (N=1500 quick / 6000 thorough); "
        "per-entry counts against weight/total and sub-bucket counts inside each chosen range against "
        "uniform, judged by exact two-sided binomial tails with a Bonferroni family-wise bound of 1e-9 "
        "per check invocation. 'select': distselect / randselect under a simulator-seeded global random, "
        "20000 draws per weight vector, zero-weight index never returned, same bound. Non-trivial = "
        "every run that judged >= 1 call or >= 1 frequency test; distinct = (scenario, program/weights shape).")
REAL = ["pyvsc (all of src/vsc)", "PyBoolector", "Python random"]
STUB = ["user code (generated)", "stdout (sink)"]
ASSUMPTIONS = ["a weight given to a range applies to the range as a whole (property statement)",
               "frequency oracles can only reject at the stated bound: shifts below ~6 sigma at N pass"]
REQUIRED_NONZERO = {"*": ["hard_calls", "freq_tests", "select_draws", "zero_weight_entries",
                          "range_entries", "weight_field_assigns"]}
TECHNIQUE = ("deterministic simulation: seeded call histories with per-step support oracle, plus seeded "
             "draw sequences judged by exact binomial tail bounds")


def budget(tier):
    if tier == "thorough":
        return {"runs": 1600, "wall": 3000}
    return {"runs": 256, "wall": 600}


dist_entries = scen.dist_entries


def generate(seed, tier):
    st = Streams(seed)
    rng = st.prog
    mode = rng.choice(["hard"] * 5 + ["freq"] * 4 + ["select"])
    rec = {"prop": ID, "seed": seed, "mode": mode}
    if mode == "hard":
        prog, g, cfg = scen.flat_program(st, True, {"enums": False, "max_fields": 3})
        k0 = prog["classes"][0]
        tf = [f for f in k0["fields"] if f["k"] == "s" and f.get("r")]
        if not tf:
            k0["fields"].append({"n": "fz", "k": "s", "w": 3, "s": False, "r": True, "i": 0})
            tf = [k0["fields"][-1]]
        f = rng.choice(tf)
        ents = dist_entries(rng, f["w"], f["s"])
        rngs_ = [e for e in ents if isinstance(e["v"], list) and e["w"] != 0 and e["v"][1] > e["v"][0]]
        if rngs_ and rng.random() < 0.4:
            # a zero-weight value inside a positively weighted range: still never produced
            e = rng.choice(rngs_)
            ents.append({"v": rng.randint(e["v"][0], e["v"][1]), "w": 0})
            rec["overlap"] = True
        # weights given by non-random fields
        wf = []
        for i, e in enumerate(ents):
            if rng.random() < 0.4:
                name = "w%d" % i
                k0["fields"].append({"n": name, "k": "s", "w": 4, "s": False, "r": False, "i": e["w"]})
                e["w"] = {"t": "f", "p": [name]}
                wf.append(name)
        if all(isinstance(e["w"], dict) or e["w"] == 0 for e in ents):
            # keep one literal non-zero weight so that the support is never empty
            for e in ents:
                if not isinstance(e["w"], dict):
                    e["w"] = 3
                    break
            else:
                ents.append({"v": ents[-1]["v"] if not isinstance(ents[-1]["v"], list) else ents[-1]["v"][1], "w": 2})
        k0["blocks"].append({"n": "cdist", "stmts": [{"t": "dist", "e": progs.F(f["n"]), "w": ents}]})
        prog["top"] = "K0"
        ops = [{"op": "new", "cls": "K0"}, {"op": "seed", "p": 0, "k": st.lib.randint(0, 1 << 30)}]
        orng = st.ops
        go = progs.Gen(orng, cfg)
        own = progs.fields_with_paths(k0)[0]
        own = [x for x in own if not x["n"].startswith("w")]
        for _ in range(orng.randint(8, 24 if tier == "quick" else 60)):
            r = orng.random()
            if r < 0.55:
                ops.append({"op": "randomize", "p": 0})
            elif r < 0.75 and own:
                ops.append({"op": "rw", "p": 0, "inline": [progs.simple_stmt(orng, own)]})
            elif wf:
                ops.append({"op": "assign", "p": 0, "path": [orng.choice(wf)],
                            "v": orng.choice([0, 0, 1, 2, 5, 9]), "wf": True})
            else:
                ops.append({"op": "seed", "p": 0, "k": st.lib.randint(0, 1 << 30)})
        rec.update({"prog": prog, "ops": ops})
    elif mode == "freq":
        w = rng.choice([3, 4, 5, 6])
        signed = rng.random() < 0.2
        ents = dist_entries(rng, w, signed)
        fields = [{"n": "a", "k": "s", "w": w, "s": signed, "r": True, "i": 0},
                  {"n": "b", "k": "s", "w": 3, "s": False, "r": True, "i": 0}]
        phases = None
        if rng.random() < 0.5:
            # weights given by non-random fields, re-assigned between two phases of draws
            w1, w2 = [], []
            for i, e in enumerate(ents):
                fields.append({"n": "w%d" % i, "k": "s", "w": 4, "s": False, "r": False, "i": e["w"]})
                w1.append(e["w"])
                w2.append(rng.choice([0, 1, 2, 5, 8]))
                e["w"] = {"t": "f", "p": ["w%d" % i]}
            if sum(w2) == 0:
                w2[0] = 3
            phases = [w1, w2]
        prog = {"enums": [], "top": "K0", "classes": [{
            "name": "K0", "fields": fields,
            "blocks": [{"n": "c", "stmts": [{"t": "dist", "e": progs.F("a"), "w": ents}]}]}]}
        rec.update({"prog": prog, "ops": [], "n": 1500 if tier == "quick" else 6000,
                    "k": st.lib.randint(0, 1 << 30), "phases": phases})
    else:
        n = rng.randint(2, 6)
        ws = [rng.choice([0, 1, 1, 2, 3, 5, 10]) for _ in range(n)]
        if sum(ws) == 0:
            ws[0] = 1
        rec.update({"weights": ws, "n": 20000, "k": st.lib.randint(0, 1 << 30),
                    "via": rng.choice(["distselect", "randselect"]), "prog": {"classes": []}, "ops": []})
    return rec


def sample(rec):
    return {k: v for k, v in rec.items() if k not in ("prop",)} if rec["mode"] != "hard" else \
        {"seed": rec["seed"], "mode": "hard", "prog": rec["prog"], "ops": rec["ops"][:10]}


def shrink(rec):
    if rec["mode"] == "hard":
        return progs.shrink_record(rec, limit=150)
    return []


def tags(rec, viol):
    return ["mode:" + rec["mode"]]


def execute(rec):
    mode = rec["mode"]
    stats = {"hard_calls": 0, "freq_tests": 0, "select_draws": 0, "zero_weight_entries": 0,
             "range_entries": 0, "weight_field_assigns": 0, "draws": 0, "ambiguous_skipped": 0,
             "min_tail": 1.0}
    viol = []
    obs = []
    sim_ms = 0
    if mode == "hard":
        from .. import randworld
        P = refsem.Prog(rec["prog"])
        w = randworld.World(rec["prog"])
        dist = [s for b in P.blocks("K0") for s in b["stmts"] if s["t"] == "dist"][0]
        stats["range_entries"] += len([e for e in dist["w"] if isinstance(e["v"], list)])
        for oi, op in enumerate(rec["ops"]):
            if "p" in op and op["p"] >= len(w.parties):
                continue
            out = w.apply(op)
            if op.get("wf"):
                stats["weight_field_assigns"] += 1
            if op["op"] not in ("randomize", "rw"):
                obs.append((oi, op["op"], out["st"]))
                continue
            if out["st"] == "exc":
                viol.append({"inv": "C15.outside_support", "cls": "C15.exception/%s/%s" % (out.get("exc"), out.get("where")),
                             "detail": {"op": oi, "outcome": out}})
                break
            if out["st"] != "ok":
                obs.append((oi, op["op"], out["st"]))
                continue
            tree = w.tree(0)
            obs.append((oi, op["op"], "ok", tree))
            stats["hard_calls"] += 1
            cx = refsem.Cx(P, "K0", tree)
            stats["zero_weight_entries"] += len([e for e in dist["w"] if refsem.weight_value(e["w"], cx) == 0])
            try:
                fail = refsem.check_tree(P, "K0", tree, None, None, op.get("inline"))
            except refsem.RefError:
                stats["ambiguous_skipped"] += 1
                continue
            if fail is not None:
                blk = [b for b in P.blocks("K0") if b["n"] == fail["block"]]
                isdist = bool(blk) and blk[0]["stmts"][fail["stmt"]]["t"] == "dist"
                viol.append({"inv": "C15.outside_support" if isdist else "C15.outside_support",
                             "cls": "C15.outside_support/" + ("dist" if isdist else "other_constraint"),
                             "detail": {"op": oi, "tree": tree, "failing": fail, "dist": dist}})
                break
        sim_ms = int(w.clock.elapsed * 1000)
        sig = "hard|" + progs.shape_sig(rec["prog"]["classes"])
    elif mode == "freq":
        from .. import randworld
        P = refsem.Prog(rec["prog"])
        w = randworld.World(rec["prog"])
        w.apply({"op": "new", "cls": "K0"})
        w.apply({"op": "seed", "p": 0, "k": rec["k"]})
        dist = rec["prog"]["classes"][0]["blocks"][0]["stmts"][0]
        obj = w.parties[0].obj
        phases = rec.get("phases") or [None]
        for ph_i, ph in enumerate(phases):
          import copy as _copy
          ents = _copy.deepcopy(dist["w"])
          if ph is not None:
            for i, wv in enumerate(ph):
                setattr(obj, "w%d" % i, wv)
                ents[i]["w"] = wv
            stats["weight_field_assigns"] += len(ph)
          total = sum(e["w"] for e in ents)
          counts = [0] * len(ents)
          inner = [dict() for _ in ents]
          n = rec["n"]
          if viol:
            break
          for _ in range(n):
              obj.randomize()
              v = int(obj.a)
              hit = None
              for i, e in enumerate(ents):
                  if (isinstance(e["v"], list) and e["v"][0] <= v <= e["v"][1]) or (not isinstance(e["v"], list) and v == e["v"]):
                      hit = i
                      break
              if hit is None or ents[hit]["w"] == 0:
                  viol.append({"inv": "C15.outside_support", "cls": "C15.outside_support/freq",
                               "detail": {"value": v, "dist": ents}})
                  break
              counts[hit] += 1
              inner[hit][v] = inner[hit].get(v, 0) + 1
          stats["draws"] = stats.get("draws", 0) + n
          stats["hard_calls"] = 0
          stats["zero_weight_entries"] = len([e for e in ents if e["w"] == 0])
          stats["range_entries"] = len([e for e in ents if isinstance(e["v"], list)])
          obs.append(counts)
          if not viol:
              for i, e in enumerate(ents):
                  p = e["w"] / float(total)
                  ok, tail = statcheck.binom_ok(counts[i], n, p)
                  stats["freq_tests"] += 1
                  if tail is not None:
                      stats["min_tail"] = min(stats["min_tail"], tail)
                  if not ok:
                      viol.append({"inv": "C15.frequency", "cls": "C15.frequency/entry",
                                   "detail": {"entry": e, "count": counts[i], "n": n, "p": p, "tail": tail,
                                              "sigma": statcheck.sigma(counts[i], n, p), "counts": counts,
                                              "dist": ents}})
                      break
                  if isinstance(e["v"], list) and counts[i] > 0:
                      size = e["v"][1] - e["v"][0] + 1
                      for v in range(e["v"][0], e["v"][1] + 1):
                          ok, tail = statcheck.binom_ok(inner[i].get(v, 0), counts[i], 1.0 / size)
                          stats["freq_tests"] += 1
                          if not ok:
                              viol.append({"inv": "C15.frequency", "cls": "C15.frequency/within_range",
                                           "detail": {"entry": e, "value": v, "count": inner[i].get(v, 0),
                                                      "n": counts[i], "p": 1.0 / size, "tail": tail,
                                                      "inner": inner[i]}})
                              break
                      if viol:
                          break
        sim_ms = int(w.clock.elapsed * 1000) + n
        sig = "freq|" + kernel.digest([[isinstance(e["v"], list), e["w"]] for e in ents])
    else:
        import vsc
        ws = rec["weights"]
        _r.seed(rec["k"])
        n = rec["n"]
        counts = [0] * len(ws)
        for _ in range(n):
            if rec["via"] == "distselect":
                i = vsc.distselect(list(ws))
            else:
                got = []
                vsc.randselect([(w_, (lambda j=j: got.append(j))) for j, w_ in enumerate(ws)])
                i = got[0] if len(got) == 1 else -1
            if i < 0 or i >= len(ws):
                viol.append({"inv": "C15.select_zero_weight", "cls": "C15.select/bad_index",
                             "detail": {"index": i, "weights": ws}})
                break
            counts[i] += 1
        stats["select_draws"] = n
        stats["zero_weight_entries"] = len([x for x in ws if x == 0])
        obs.append(counts)
        if not viol:
            total = float(sum(ws))
            for i, w_ in enumerate(ws):
                if w_ == 0 and counts[i] > 0:
                    viol.append({"inv": "C15.select_zero_weight", "cls": "C15.select_zero_weight",
                                 "detail": {"index": i, "count": counts[i], "weights": ws, "via": rec["via"]}})
                    break
                ok, tail = statcheck.binom_ok(counts[i], n, w_ / total)
                stats["freq_tests"] += 1
                if not ok:
                    viol.append({"inv": "C15.select_frequency", "cls": "C15.select_frequency",
                                 "detail": {"index": i, "count": counts[i], "n": n, "p": w_ / total,
                                            "tail": tail, "weights": ws, "counts": counts, "via": rec["via"]}})
                    break
        sim_ms = n // 10
        sig = "select|" + kernel.digest([rec["via"], sorted(ws)])
    stats.pop("min_tail", None) if stats.get("min_tail") == 1.0 else None
    if "min_tail" in stats:
        stats["min_tail_log10"] = 0
        stats.pop("min_tail")
    return {"viol": viol, "stats": stats, "digest": kernel.digest(obs),
            "sigs": [kernel.digest(sig)[:16]],
            "evals": stats["hard_calls"] + stats["freq_tests"] + (1 if mode == "select" else 0),
            "sim_ms": sim_ms}

"""C01 - returned values satisfy every active hard constraint and their type."""
import itertools

from .. import kernel, progs, refsem, scen
from ..kernel import Streams

ID = "C01"
LEVEL = "exploration"
RULE = ("one run = one seeded scenario: a swarm-generated constraint program (widths 1..64, "
        "signed/unsigned/enum fields, non-random fields, if/else-if/else, implies, in, unique, "
        "arithmetic/bitwise/shift/part-select expression trees), 1-3 live parties and a 6-30 op "
        "history of randomize / randomize_with / vsc.randomize / assignments / reseeds; oracles at "
        "every normally returning call (type range, reference evaluation of every enabled hard "
        "constraint, pin-probes of reference-infeasible points on small domains). A run is "
        "non-trivial when at least one call returned normally with >=1 random field and was "
        "judged; distinct = distinct (program shape signature, op-kind 3-gram set).")
REAL = ["pyvsc (all of src/vsc)", "PyBoolector solver", "Python random (RandState)"]
STUB = ["user code (generated constraint bodies / with-blocks)", "stdout (sink)"]
ASSUMPTIONS = ["reference evaluator implements the per-node width/sign rule of DESIGN 3.1; "
               "shapes on which readings of 'SystemVerilog-style' differ are not generated",
               "Boolector is deterministic for a given formula sequence"]
REQUIRED_NONZERO = {"*": ["judged_calls", "probes"]}


def budget(tier):
    if tier == "thorough":
        return {"runs": 6000, "wall": 3000}
    return {"runs": 640, "wall": 600}


def generate(seed, tier):
    st = Streams(seed)
    if st.prog.random() < 0.3:
        # composite programs (object trees, lists with foreach / aggregates, solve_order + dist):
        # judged by reference evaluation of the returned tree
        prog, g, top, kind = scen.mixed_program(st, True)
        n_parties = st.ops.choice([1, 1, 2])
        n_ops = st.ops.randint(6, 20 if tier == "quick" else 40)
        ops = scen.history_ops(st, prog, g, n_parties, n_ops, cname=top)
        return {"prop": ID, "seed": seed, "prog": prog, "ops": ops, "small": False, "kind": kind,
                "probe_seed": st.fault.randint(0, 1 << 30)}
    small = st.prog.random() < 0.55
    prog, g, cfg = scen.flat_program(st, small)
    n_parties = st.ops.choice([1, 1, 2, 3])
    n_ops = st.ops.randint(6, 30 if tier == "quick" else 60)
    ops = scen.history_ops(st, prog, g, n_parties, n_ops)
    return {"prop": ID, "seed": seed, "prog": prog, "ops": ops,
            "small": scen.rand_domain_size(prog, "K0") <= 4096,
            "probe_seed": st.fault.randint(0, 1 << 30)}


def sample(rec):
    return {"seed": rec["seed"], "prog": rec["prog"], "ops": rec["ops"][:12],
            "n_ops": len(rec["ops"])}


def shrink(rec):
    return progs.shrink_record(rec)


def tags(rec, viol):
    return []


def type_violations(P, cname, tree, paths):
    bad = []
    for p in paths:
        f = refsem.Cx(P, cname, None).ftype(p)
        v = refsem._walk(tree, p)
        if f["k"] in ("e", "le"):
            if v not in P.enum_values(f["en"]):
                bad.append((p, v))
        elif not refsem.in_type(v, f["w"], f["s"]):
            bad.append((p, v))
    return bad


def infeasible_points(rng, doms, sols, k):
    """up to k reference-infeasible points, boundary-adjacent first"""
    solset = set(sols)
    out = []
    seen = set()
    sl = list(sols)
    rng.shuffle(sl)
    for s in sl[:8]:
        for i in range(len(s)):
            d = doms[i]
            j = d.index(s[i])
            for jj in (j - 1, j + 1):
                if 0 <= jj < len(d):
                    c = s[:i] + (d[jj],) + s[i + 1:]
                    if c not in solset and c not in seen:
                        seen.add(c)
                        out.append(c)
    rng.shuffle(out)
    out = out[:k]
    tries = 0
    while len(out) < k and tries < 40:
        tries += 1
        c = tuple(rng.choice(d) for d in doms)
        if c not in solset and c not in seen:
            seen.add(c)
            out.append(c)
    return out


def execute(rec):
    from .. import randworld
    import random as _r
    P = refsem.Prog(rec["prog"])
    w = randworld.World(rec["prog"])
    prng = _r.Random(rec.get("probe_seed", 0))
    viol = []
    stats = {"judged_calls": 0, "probes": 0, "ambiguous_skipped": 0, "solvefail": 0,
             "lib_exc": 0, "ok_calls": 0, "probe_feasible_rejected": 0, "enumerations": 0}
    obs = []
    sol_cache = {}
    nontrivial = False
    stats["kind_" + rec.get("kind", "flat")] = 1
    for oi, op in enumerate(rec["ops"]):
        if "p" in op and op["p"] >= len(w.parties):
            continue
        if op["op"] in ("frand",) and any(t[0] >= len(w.parties) for t in op["targets"]):
            continue
        out = w.apply(op)
        kind = op["op"]
        if kind not in ("randomize", "rw", "frand"):
            obs.append((oi, kind, out["st"]))
            continue
        p = op["p"] if "p" in op else op["targets"][0][0]
        pt = w.parties[p]
        if out["st"] == "solvefail":
            stats["solvefail"] += 1
            obs.append((oi, kind, "solvefail"))
            continue
        if out["st"] != "ok":
            stats["lib_exc"] += 1       # C02's business
            obs.append((oi, kind, out["st"], out.get("exc")))
            continue
        stats["ok_calls"] += 1
        tree = w.tree(p)
        obs.append((oi, kind, "ok", tree))
        rpaths = w.rand_paths(p, tree)
        if not rpaths:
            continue
        bad = type_violations(P, pt.cname, tree, rpaths)
        if bad:
            viol.append({"inv": "C01.type_range", "detail": {"op": oi, "bad": bad, "tree": tree}})
            break
        inline = op.get("inline")
        try:
            fail = refsem.check_tree(P, pt.cname, tree, pt.modes, pt.rangelists, inline)
        except refsem.RefError as e:
            stats["ambiguous_skipped"] += 1
            continue
        stats["judged_calls"] += 1
        nontrivial = True
        if fail is not None:
            viol.append({"inv": "C01.hard_holds",
                         "detail": {"op": oi, "failing": fail, "tree": tree, "kind": kind}})
            break
        # pin-probes of reference-infeasible points (small domains, plain calls)
        if rec.get("small") and kind == "randomize" and prng.random() < 0.5:
            nr_key = kernel.digest([tree.get(f["n"]) for f in scen.nonrand_fields(rec["prog"], pt.cname)])
            try:
                if nr_key not in sol_cache:
                    stats["enumerations"] += 1
                    sol_cache[nr_key] = refsem.enumerate_solutions(
                        P, pt.cname, tree, rpaths, pt.modes, pt.rangelists, None, 4096)
                sols = sol_cache[nr_key]
            except refsem.RefError:
                stats["ambiguous_skipped"] += 1
                continue
            doms = [list(refsem.path_domain(P, pt.cname, q)) for q in rpaths]
            pts = infeasible_points(prng, doms, sols, 4)
            for c in pts:
                stats["probes"] += 1
                okp = w.probe(p, list(zip(rpaths, c)))
                if okp:
                    viol.append({"inv": "C01.probe_accepts_infeasible",
                                 "detail": {"op": oi, "point": list(zip(rpaths, c)), "tree": tree}})
                    break
            if viol:
                break
            if sols:
                c = prng.choice(sols)
                stats["probes"] += 1
                if not w.probe(p, list(zip(rpaths, c))):
                    stats["probe_feasible_rejected"] += 1    # C02's business
    sig = progs.shape_sig(rec["prog"]["classes"]) + "|" + scen.op_sig(rec["ops"])
    return {"viol": viol, "stats": stats, "digest": kernel.digest(obs),
            "sigs": [kernel.digest(sig)[:16]] if nontrivial else [],
            "evals": stats["judged_calls"] + stats["probes"],
            "sim_ms": int(w.clock.elapsed * 1000)}

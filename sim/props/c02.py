"""C02 - SolveFailure is raised exactly when the hard constraints are unsatisfiable."""
from .. import kernel, progs, refsem, scen
from ..kernel import Streams

ID = "C02"
LEVEL = "exploration"
RULE = ("one run = one seeded scenario over a small-domain program (product of random-field "
        "domains <= 4096): 1-2 parties, 6-30 ops mixing randomize / randomize_with (incl. "
        "contradictory inline blocks = force_unsat fault) / non-random assignments that make the "
        "system unsatisfiable / both solve_fail_debug settings / many random states; satisfiability "
        "decided by exhaustive enumeration in the reference; pin-probes of reference-feasible "
        "points must be accepted. Non-trivial = at least one call judged SAT and returned, or "
        "judged UNSAT; distinct = (program shape, op 3-gram set). A share of the runs ('rsz') uses "
        "programs with random-size lists, too large to enumerate: there a sampled witness (random "
        "assignments incl. list lengths, checked by the reference) proves satisfiability and a "
        "SolveFailure with a witness is the violation; no witness found decides nothing.")
REAL = ["pyvsc (all of src/vsc)", "PyBoolector solver", "Python random (RandState)"]
STUB = ["user code (generated)", "stdout (sink)"]
ASSUMPTIONS = ["reference enumerator + evaluator (DESIGN 3.1) decide satisfiability exactly on the "
               "generated (unambiguous) shapes",
               "random-size-list programs ('rsz') are judged one-sidedly: a sampled witness proves "
               "satisfiability, an unsatisfiable system that wrongly returns values is left to C01/C04"]
REQUIRED_NONZERO = {"*": ["sat_calls", "unsat_calls", "faults_fired.force_unsat", "probes",
                          "kind_list", "kind_rl", "kind_rsz", "kind_core", "witness_calls"]}


def budget(tier):
    if tier == "thorough":
        return {"runs": 6000, "wall": 3000}
    return {"runs": 640, "wall": 600}


def contradiction(rng, prog):
    """inline block that no assignment satisfies (force_unsat fault)"""
    P = refsem.Prog(prog)
    fs = [f for f in P.fields("K0") if f["k"] == "s" and f.get("r")]
    if not fs:
        fs = [f for f in P.fields("K0") if f["k"] == "s"]
    f = rng.choice(fs)
    lo, hi = (-(1 << (f["w"] - 1)), (1 << (f["w"] - 1)) - 1) if f["s"] else (0, (1 << f["w"]) - 1)
    v = rng.randint(lo, hi)
    k = rng.random()
    fe = {"t": "f", "p": [f["n"]]}
    if k < 0.4:
        return [progs.EXPR(progs.BIN("==", fe, progs.LIT(v))),
                progs.EXPR(progs.BIN("!=", fe, progs.LIT(v)))]
    if k < 0.7:
        return [progs.EXPR(progs.BIN("&", progs.BIN("<", fe, progs.LIT(v)),
                                     progs.BIN(">", fe, progs.LIT(v))))]
    return [progs.EXPR(progs.BIN(">", fe, progs.LIT(hi)))] if not f["s"] else \
        [progs.EXPR(progs.BIN("<", fe, progs.LIT(lo)))]


def list_scenario(st, tier):
    """small list program (fixed-size lists of 2-bit elements, foreach / aggregates, conditions on
    non-random fields) with list edits between calls"""
    rng = st.prog
    cfg = {"widths": [2], "signed": False, "depth": 1, "max_stmts": 3, "max_blocks": 2, "ps": False,
           "shifts": False, "divmod": False, "arith": ["+", "-"], "stmts": ["expr", "expr", "in", "if"],
           "nonrand": True}
    g = progs.ListGen(rng, cfg)
    prog = g.list_program(allow_randsz=False, allow_obj=False)
    for c in prog["classes"]:
        for f in c["fields"]:
            if f["k"] == "s":
                f["w"] = min(f["w"], 3)
    P = refsem.Prog(prog)
    lists = [f for f in P.fields("K0") if f["k"] == "l"]
    nr = scen.nonrand_fields(prog, "K0")
    orng = st.ops
    go = progs.Gen(orng, cfg)
    ops = [{"op": "new", "cls": "K0"}, {"op": "seed", "p": 0, "k": st.lib.randint(0, 1 << 30)}]
    fixed = str(prog)
    for _ in range(orng.randint(6, 20 if tier == "quick" else 40)):
        r = orng.random()
        if r < 0.5:
            ops.append({"op": "randomize", "p": 0})
        elif r < 0.65 and lists:
            lf = orng.choice(lists)
            ops.append({"op": "lappend", "p": 0, "path": [lf["n"]], "v": orng.randint(0, 3)})
        elif r < 0.8 and nr:
            f = orng.choice(nr)
            ops.append({"op": "assign", "p": 0, "path": [f["n"]], "v": go.in_range_value(f)})
        else:
            own = progs.fields_with_paths(P.cls("K0"))[0]
            ops.append({"op": "rw", "p": 0, "inline": [progs.simple_stmt(orng, own)] if own else []})
    return prog, g, cfg, ops


def has_rsz_foreach(prog):
    """a foreach whose list is a random-size list (shape of known finding KF-C02-RANDSZ-FOREACH)"""
    rsz = set()
    for c in prog["classes"]:
        for f in c.get("fields", []):
            if f.get("rsz"):
                rsz.add(f["n"])

    def walk(stmts):
        for s_ in stmts:
            if s_["t"] == "foreach":
                if s_["p"] and s_["p"][0] in rsz:
                    return True
                if walk(s_["body"]):
                    return True
            elif s_["t"] == "if":
                if walk(s_["then"]) or walk(s_.get("else") or []) or any(walk(b) for (_c, b) in s_.get("elifs", [])):
                    return True
            elif s_["t"] == "implies" and walk(s_["body"]):
                return True
        return False
    return any(walk(b["stmts"]) for c in prog["classes"] for b in c.get("blocks", []))


def rsz_scenario(st, tier):
    """list program with random-size lists (size ranges, foreach bodies, fixed-size neighbours):
    too large to enumerate, judged one-sidedly by a sampled witness"""
    def build(rng):
        cfg = {"widths": [2, 3], "signed": False, "depth": 1, "max_stmts": 2, "max_blocks": 2, "ps": False,
               "shifts": False, "divmod": False, "arith": ["+", "-"], "stmts": ["expr", "expr", "in"],
               "nonrand": True}
        g = progs.ListGen(rng, cfg)
        for _ in range(8):
            prog = g.list_program(allow_randsz=True, allow_obj=False, gates=("randsz-aggregate",))
            if any(f.get("rsz") for f in prog["classes"][-1]["fields"]):
                break
        return prog, g, cfg
    prog, g, cfg = scen.prefer_sat(st, build, lambda o: "K0", p_free=0.1)
    P = refsem.Prog(prog)
    nr = scen.nonrand_fields(prog, "K0")
    orng = st.ops
    go = progs.Gen(orng, cfg)
    ops = [{"op": "new", "cls": "K0"}, {"op": "seed", "p": 0, "k": st.lib.randint(0, 1 << 30)}]
    own = progs.fields_with_paths(P.cls("K0"))[0]
    for _ in range(orng.randint(4, 12 if tier == "quick" else 30)):
        r = orng.random()
        if r < 0.6:
            ops.append({"op": "randomize", "p": 0})
        elif r < 0.8 and nr:
            f = orng.choice(nr)
            ops.append({"op": "assign", "p": 0, "path": [f["n"]], "v": go.in_range_value(f)})
        else:
            ops.append({"op": "rw", "p": 0, "inline": [progs.simple_stmt(orng, own)] if own else []})
    return prog, g, cfg, ops


def core_scenario(st, tier):
    """a conflict that needs many constraints at once: k 2-bit fields in a cyclic order
    x0 <= x1 <= ... <= x(k-1) < x0 (no proper subset is unsatisfiable), asked for with both
    solve_fail_debug settings (the diagnostics search failing subsets of bounded size), plus
    satisfiable variants (one link removed by an inline-free call on a shorter cycle)"""
    rng = st.prog
    k = rng.choice([5, 5, 6])
    fields = [{"n": "x%d" % i, "k": "s", "w": 2, "s": False, "r": True, "i": 0} for i in range(k)]
    links = [progs.EXPR(progs.BIN("<=", progs.F("x%d" % i), progs.F("x%d" % (i + 1)))) for i in range(k - 1)]
    closing = progs.EXPR(progs.BIN("<", progs.F("x%d" % (k - 1)), progs.F("x0")))
    cyc = rng.random() < 0.6
    stmts = links + ([closing] if cyc else [])
    rng.shuffle(stmts)
    cut = rng.randint(1, len(stmts) - 1)
    prog = {"enums": [], "top": "K0", "classes": [{"name": "K0", "fields": fields, "blocks": [
        {"n": "c0", "stmts": stmts[:cut]}, {"n": "c1", "stmts": stmts[cut:]}]}]}
    ops = [{"op": "new", "cls": "K0"}, {"op": "seed", "p": 0, "k": st.lib.randint(0, 1 << 30)}]
    orng = st.ops
    for _ in range(orng.randint(3, 8)):
        if cyc or orng.random() < 0.5:
            ops.append({"op": "randomize", "p": 0, "sfd": orng.choice([0, 1, 1])})
        else:
            # the closing link comes with the call
            ops.append({"op": "rw", "p": 0, "inline": [closing], "sfd": orng.choice([0, 1, 1])})
    return prog, ops


def generate(seed, tier):
    st = Streams(seed)
    kind = st.prog.choice(["flat"] * 6 + ["list"] * 3 + ["rl"] * 2 + ["rsz"] * 2 + ["core"])
    if kind == "core":
        prog, ops = core_scenario(st, tier)
        return {"prop": ID, "seed": seed, "prog": prog, "ops": ops, "kind": kind,
                "probe_seed": st.fault.randint(0, 1 << 30)}
    if kind == "rsz":
        prog, g, cfg, ops = rsz_scenario(st, tier)
        return {"prop": ID, "seed": seed, "prog": prog, "ops": ops, "kind": kind,
                "probe_seed": st.fault.randint(0, 1 << 30)}
    if kind == "list":
        prog, g, cfg, ops = list_scenario(st, tier)
        frng = st.fault
        for op in ops:
            if op["op"] == "rw" and frng.random() < 0.4:
                op["inline"] = op["inline"] + contradiction(frng, prog)
                op["fault"] = "force_unsat"
        return {"prop": ID, "seed": seed, "prog": prog, "ops": ops, "kind": kind,
                "probe_seed": frng.randint(0, 1 << 30)}
    prog, g, cfg = scen.flat_program(st, True)
    tries = 0
    while scen.rand_domain_size(prog, "K0") > 4096 and tries < 10:
        st2 = Streams(kernel.H(seed, "retry", tries))
        prog, g, cfg = scen.flat_program(st2, True, {"max_fields": 3})
        tries += 1
    n_parties = st.ops.choice([1, 1, 2])
    n_ops = st.ops.randint(6, 30 if tier == "quick" else 60)
    ops = scen.history_ops(st, prog, g, n_parties, n_ops,
                           mix={"randomize": 45, "rw": 25, "assign": 20, "seed": 10})
    if kind == "rl":
        # a mutable rangelist, replaced in place (same and different length) between calls
        k0 = prog["classes"][0]
        sf = [f for f in k0["fields"] if f["k"] == "s" and f.get("r")]
        if sf:
            f = st.prog.choice(sf)
            lo, hi = (-(1 << (f["w"] - 1)), (1 << (f["w"] - 1)) - 1) if f["s"] else (0, (1 << f["w"]) - 1)
            k0["rls"] = [{"n": "rl0", "items": [st.prog.randint(lo, hi), st.prog.randint(lo, hi)]}]
            k0["blocks"].append({"n": "crl", "stmts": [progs.EXPR({"t": "inrl", "e": progs.F(f["n"]), "name": "rl0"})]})
            extra = []
            for op in ops:
                extra.append(op)
                if op["op"] in ("randomize", "rw") and st.ops.random() < 0.3:
                    n_it = st.ops.choice([2, 2, 1, 3])
                    extra.append({"op": "rl", "p": op["p"], "name": "rl0", "act": "clear", "items": []})
                    extra.append({"op": "rl", "p": op["p"], "name": "rl0", "act": "extend",
                                  "items": [st.ops.randint(lo, hi) for _ in range(n_it)]})
            ops = extra
    # force_unsat faults + solve_fail_debug settings
    frng = st.fault
    for op in ops:
        if op["op"] == "rw" and frng.random() < 0.3:
            op["inline"] = op["inline"] + contradiction(frng, prog)
            op["fault"] = "force_unsat"
        if op["op"] in ("rw", "randomize") and frng.random() < 0.3:
            op["sfd"] = 1
    return {"prop": ID, "seed": seed, "prog": prog, "ops": ops, "kind": kind,
            "probe_seed": frng.randint(0, 1 << 30)}


def sample(rec):
    return {"seed": rec["seed"], "prog": rec["prog"], "ops": rec["ops"][:12],
            "n_ops": len(rec["ops"])}


def shrink(rec):
    return progs.shrink_record(rec)


def tags(rec, viol):
    t = []
    d = viol.get("detail", {})
    if d.get("exc"):
        t.append("exc:" + str(d.get("exc")))
    if d.get("where"):
        t.append("where:" + str(d.get("where")))
    if rec.get("kind") == "rsz" and has_rsz_foreach(rec["prog"]) and "before" in d:
        # KF-C02-RANDSZ-FOREACH: foreach bodies are enforced on the hidden pre-extended slots of a
        # random-size list.  That explains a failure only if the system has no solution with every
        # such list at its largest admitted size (there the two readings coincide); if it has one,
        # the failure is something else and stays untagged.
        import random as _r
        P = refsem.Prog(rec["prog"])
        full = max_sizes(rec["prog"])
        op = rec["ops"][d["op"]] if isinstance(d.get("op"), int) and d["op"] < len(rec["ops"]) else {}
        wit = refsem.sample_witness(P, "K0", d["before"], _r.Random(0), None, None,
                                    refsem.class_rangelists(P, "K0"), op.get("inline"), 1500, sizes=full)
        if wit is None:
            t.append("randsz-foreach")
    return t


def max_sizes(prog):
    """largest length the generated size statements admit, per random-size list"""
    out = {}
    for c in prog["classes"]:
        for b in c.get("blocks", []):
            for s_ in b["stmts"]:
                e = s_.get("e") if s_["t"] == "expr" else None
                if not e:
                    continue
                if e["t"] == "in" and isinstance(e["e"], dict) and e["e"].get("t") == "size":
                    hi = max(x[1] if isinstance(x, list) else x for x in e["rl"])
                    n = e["e"]["p"][0]
                    out[n] = min(out.get(n, hi), hi)
                elif e["t"] == "bin" and isinstance(e["l"], dict) and e["l"].get("t") == "size" \
                        and e["op"] in ("<=", "==") and e["r"].get("t") == "lit":
                    n = e["l"]["p"][0]
                    out[n] = min(out.get(n, e["r"]["v"]), e["r"]["v"])
    return out


def execute(rec):
    from .. import randworld
    import random as _r
    P = refsem.Prog(rec["prog"])
    w = randworld.World(rec["prog"])
    prng = _r.Random(rec.get("probe_seed", 0))
    viol = []
    stats = {"sat_calls": 0, "unsat_calls": 0, "probes": 0, "ambiguous_skipped": 0,
             "faults_fired": {}, "enumerations": 0, "sfd_calls": 0}
    stats["kind_" + rec.get("kind", "flat")] = 1
    obs = []
    cache = {}
    nontrivial = False
    for oi, op in enumerate(rec["ops"]):
        if "p" in op and op["p"] >= len(w.parties):
            continue
        kind = op["op"]
        if kind not in ("randomize", "rw"):
            out = w.apply(op)
            obs.append((oi, kind, out["st"]))
            continue
        p = op["p"]
        pt = w.parties[p]
        before = w.tree(p)
        inline = op.get("inline")
        if rec.get("kind") == "rsz":
            # one-sided: a sampled witness proves satisfiability, a returned result is judged
            wit = refsem.sample_witness(P, pt.cname, before, prng, pt.rand_off, pt.modes, pt.rangelists,
                                        inline, 300)
            out = w.apply(op)
            obs.append((oi, kind, out["st"], out.get("exc")))
            detail = {"op": oi, "kind": kind, "before": before, "outcome": out}
            if out["st"] == "exc":
                detail["exc"], detail["where"] = out.get("exc"), out.get("where")
                viol.append({"inv": "C02.foreign_exception", "detail": detail,
                             "cls": "C02.foreign_exception/%s/%s" % (out.get("exc"), out.get("where"))})
                break
            if wit is not None:
                nontrivial = True
                stats["sat_calls"] += 1
                stats["witness_calls"] = stats.get("witness_calls", 0) + 1
                if out["st"] == "solvefail":
                    detail["witness"] = wit
                    viol.append({"inv": "C02.spurious_failure", "detail": detail,
                                 "cls": "C02.spurious_failure/randsz"})
                    break
            elif out["st"] == "ok":
                stats["unjudged_ok"] = stats.get("unjudged_ok", 0) + 1
            continue
        rpaths = w.rand_paths(p, before)
        key = kernel.digest([before, inline, sorted(pt.rand_off), pt.modes, pt.rangelists])
        sols = None
        try:
            if key not in cache:
                stats["enumerations"] += 1
                cache[key] = refsem.enumerate_solutions(P, pt.cname, before, rpaths, pt.modes,
                                                        pt.rangelists, inline, 4096)
            sols = cache[key]
        except refsem.RefError:
            stats["ambiguous_skipped"] += 1
        if op.get("sfd"):
            stats["sfd_calls"] += 1
        out = w.apply(op)
        obs.append((oi, kind, out["st"], out.get("exc")))
        if sols is None:
            continue
        if op.get("fault") and not sols:
            stats["faults_fired"]["force_unsat"] = stats["faults_fired"].get("force_unsat", 0) + 1
        nontrivial = True
        detail = {"op": oi, "kind": kind, "before": before, "n_solutions": len(sols),
                  "outcome": out}
        if out["st"] == "exc":
            detail["exc"] = out.get("exc")
            detail["where"] = out.get("where")
            viol.append({"inv": "C02.foreign_exception", "detail": detail,
                         "cls": "C02.foreign_exception/%s/%s" % (out.get("exc"), out.get("where"))})
            break
        if sols:
            stats["sat_calls"] += 1
            if out["st"] == "solvefail":
                detail["example_solution"] = list(zip(rpaths, sols[0]))
                viol.append({"inv": "C02.spurious_failure", "detail": detail})
                break
            # feasible points must be accepted by a pin-probe
            if kind == "randomize" and prng.random() < 0.35:
                for c in prng.sample(sols, min(3, len(sols))):
                    stats["probes"] += 1
                    if not w.probe(p, list(zip(rpaths, c))):
                        detail["point"] = list(zip(rpaths, c))
                        viol.append({"inv": "C02.spurious_failure", "detail": detail})
                        break
                if viol:
                    break
        else:
            stats["unsat_calls"] += 1
            if out["st"] == "ok":
                detail["after"] = w.tree(p)
                viol.append({"inv": "C02.missed_failure", "detail": detail})
                break
    sig = progs.shape_sig(rec["prog"]["classes"]) + "|" + scen.op_sig(rec["ops"])
    return {"viol": viol, "stats": stats, "digest": kernel.digest(obs),
            "sigs": [kernel.digest(sig)[:16]] if nontrivial else [],
            "evals": stats["sat_calls"] + stats["unsat_calls"] + stats["probes"],
            "sim_ms": int(w.clock.elapsed * 1000)}

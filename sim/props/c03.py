"""C03 - a call changes only what is random in it; everything else acts as a constant."""
import random as _r

from .. import kernel, progs, refsem, scen
from ..kernel import Streams

ID = "C03"
LEVEL = "exploration"
RULE = ("one run = one history over 1-3 objects of a generated class (declared-random / non-random "
        "scalars, random and non-random sub-objects, lists, a mutable rangelist) plus a group of "
        "stand-alone fields: in-range assignments through every access path, rand_mode off/on, "
        "rangelist clear/append/extend, randomize / randomize_with / vsc.randomize(subset) / "
        "vsc.randomize_with(subset), calls forced unsatisfiable. Oracles: (frame) every field that is "
        "not random for the call is bit-identical after it, success or failure; (constants) pin-probe "
        "verdicts of the treated object equal those of a freshly constructed control object brought "
        "to the same non-random values / rand_mode flags / rangelist contents. Non-trivial = >=1 call "
        "with >=1 non-random field in the frame and >=1 probe pair; distinct = (program shape, op 3-grams)."
        " Class blocks may read a stand-alone non-random field (value carried in the tree under $g; it must survive every call on the object) and use a bit-select indexed by a non-random field.")
REAL = ["pyvsc (all of src/vsc)", "PyBoolector"]
STUB = ["user code (generated)", "stdout (sink)"]
ASSUMPTIONS = ["frame oracle is evaluator-free; the constants oracle compares the implementation with "
               "itself (fresh control object), so a lowering defect cannot be mis-attributed here"]
REQUIRED_NONZERO = {"*": ["frame_checks", "probe_pairs", "faults_fired.force_unsat", "rand_mode_ops",
                          "rl_ops", "sa_calls", "field_calls", "list_edits"]}


def budget(tier):
    if tier == "thorough":
        return {"runs": 4000, "wall": 3000}
    return {"runs": 800, "wall": 600}


def generate(seed, tier):
    st = Streams(seed)
    rng = st.prog
    prog, g = scen.tree_program(st, feats={"depth": rng.choice([1, 2, 2]), "objlists": rng.random() < 0.3,
                                           "nonrand_sub": True, "fanout": 2},
                                cfg={"nonrand": True, "loose": 0.7, "max_stmts": 3})
    top = prog["top"]
    P = refsem.Prog(prog)
    tcls = P.cls(top)
    # a mutable rangelist used by one more block of the top class
    sf = [f for f in tcls["fields"] if f["k"] == "s" and f.get("r")]
    if sf and rng.random() < 0.7:
        f = rng.choice(sf)
        hi = (1 << f["w"]) - 1 if not f["s"] else (1 << (f["w"] - 1)) - 1
        lo = 0 if not f["s"] else -(1 << (f["w"] - 1))
        a, b = sorted([rng.randint(lo, hi), rng.randint(lo, hi)])
        tcls["rls"] = [{"n": "rl0", "items": [[a, b]]}]
        tcls["blocks"].append({"n": "crl", "stmts": [
            progs.EXPR({"t": "inrl", "e": progs.F(f["n"]), "name": "rl0"})]})
        rl_field = f
    else:
        rl_field = None
    # stand-alone fields
    sa = []
    for i in range(rng.randint(2, 4)):
        w = rng.choice([2, 3, 4])
        sa.append({"n": "s%d" % i, "k": "s", "w": w, "s": False, "r": rng.random() < 0.6, "i": 0})
    # a class constraint that reads a stand-alone field: for the object's calls it is a constant,
    # whatever free-standing calls did to it before
    usf = [f for f in tcls["fields"] if f["k"] == "s" and f.get("r") and not f["s"]]
    if usf and rng.random() < 0.5:
        f = rng.choice(usf)
        # (declared non-random: whether an *outside* field that is declared rand takes part in an
        # object's call is not something the property fixes, so such references are not generated)
        gsa = rng.choice(sa)
        gsa["r"] = False
        tcls["blocks"].append({"n": "cg", "stmts": [progs.EXPR(progs.BIN(
            rng.choice(["<=", ">=", "!="]), progs.F(f["n"]), {"t": "g", "n": gsa["n"]}))]})
        prog["globals"] = sa
    # a bit-select whose index is a non-random field: the selected bit moves with the field
    wide = [f for f in tcls["fields"] if f["k"] == "s" and f.get("r") and not f["s"] and f["w"] >= 4]
    if wide and rng.random() < 0.4:
        f = rng.choice(wide)
        tcls["fields"].append({"n": "bsel", "k": "s", "w": 2, "s": False, "r": False, "i": rng.randint(0, 3)})
        tcls["blocks"].append({"n": "cps", "stmts": [progs.EXPR(progs.BIN(
            "==", {"t": "ps", "p": [f["n"]], "bit_f": ["bsel"]}, progs.LIT(rng.randint(0, 1))))]})
    rec = {"prop": ID, "seed": seed, "prog": prog, "sa": sa,
           "probe_seed": st.fault.randint(0, 1 << 30)}
    rec["ops"] = gen_ops(st, prog, g, rl_field, sa, tier)
    return rec


def all_paths(P, cname, base=None, rand_ctx=True, out=None):
    """(path, field def, reachable-as-random) for every scalar field (fixed-size lists expanded)"""
    if out is None:
        out = []
    base = base or []
    for f in P.fields(cname):
        p = base + [f["n"]]
        if f["k"] in ("s", "e"):
            out.append((p, f, rand_ctx and bool(f.get("r"))))
        elif f["k"] == "l":
            for i in range(f.get("sz", 0)):
                out.append((p + [i], f, rand_ctx and bool(f.get("r"))))
        elif f["k"] == "o":
            all_paths(P, f["c"], p, rand_ctx and bool(f.get("r")), out)
        elif f["k"] == "lo":
            for i in range(f.get("sz", 0)):
                all_paths(P, f["c"], p + [i], rand_ctx and bool(f.get("r")), out)
    return out


def tree_lists(P, cname, base=None, out=None):
    """(path, field def) of scalar lists reachable through plain attributes"""
    if out is None:
        out = []
    base = base or []
    for f in P.fields(cname):
        if f["k"] == "l" and not f.get("rsz"):
            out.append((base + [f["n"]], f))
        elif f["k"] == "o":
            tree_lists(P, f["c"], base + [f["n"]], out)
    return out


def gen_ops(st, prog, g, rl_field, sa, tier):
    rng = st.ops
    P = refsem.Prog(prog)
    top = prog["top"]
    paths = all_paths(P, top)
    nonrand = [(p, f) for (p, f, r) in paths if not r]
    toggles = [(p, f) for (p, f, r) in paths if r and len(p) == 1 and f["k"] == "s"]
    gi = progs.Gen(st.ops, g.cfg)
    list_paths = tree_lists(P, top)
    field_targets = [(q, f_) for (q, f_, r_) in paths if r_ and f_["k"] == "s" and
                     all(isinstance(x, str) for x in q)]
    n_parties = rng.choice([1, 2, 2, 3])
    ops = []
    rl_len = {}
    for p in range(n_parties):
        ops.append({"op": "new", "cls": top})
        ops.append({"op": "seed", "p": p, "k": st.lib.randint(0, 1 << 30)})
    n_ops = rng.randint(8, 30 if tier == "quick" else 60)
    own = progs.fields_with_paths(P.cls(top))[0]
    for _ in range(n_ops):
        r = rng.random()
        p = rng.randrange(n_parties)
        if r < 0.22 and nonrand:
            path, f = rng.choice(nonrand)
            ops.append({"op": "assign", "p": p, "path": path, "v": gi.in_range_value(f)})
        elif r < 0.32 and toggles:
            path, f = rng.choice(toggles)
            ops.append({"op": "rand_mode", "p": p, "path": path, "on": rng.random() < 0.4})
            if rng.random() < 0.7:
                ops.append({"op": "assign", "p": p, "path": path, "v": gi.in_range_value(f)})
        elif r < 0.42 and rl_field is not None:
            act = rng.choice(["clear", "append", "append", "extend", "replace"])
            f = rl_field
            items = []
            n_old = rl_len.get(p, 1)
            if act == "replace" and n_old == 0:
                act = "append"
            if act == "replace":
                # same number of entries, other content: a memo keyed by the shape of the
                # rangelist must not survive this (seeded r4-C03-in-expansion-memo)
                ops.append({"op": "rl", "p": p, "name": "rl0", "act": "clear", "items": []})
                act, n_new = "extend", n_old
                rl_len[p] = n_old
            elif act == "clear":
                n_new = 1
                rl_len[p] = 0
            else:
                n_new = 1 if act != "extend" else 2
                rl_len[p] = n_old + n_new
            for _i in range(n_new):
                a = gi.small_literal(f, "S" if f["s"] else "U")
                if rng.random() < 0.5:
                    b = gi.small_literal(f, "S" if f["s"] else "U")
                    items.append([min(a, b), max(a, b)])
                else:
                    items.append(a)
            ops.append({"op": "rl", "p": p, "name": "rl0", "act": act, "items": items})
        elif r < 0.62:
            ops.append({"op": "randomize", "p": p})
        elif r < 0.78:
            inl = progs.strip(gi.stmts(own, 1, lo=1, hi=2)) if own else []
            op = {"op": "rw", "p": p, "inline": inl}
            if rng.random() < 0.3 and own:
                f = own[0]
                fe = {"t": "f", "p": f["_p"]}
                op["inline"] = inl + [progs.EXPR(progs.BIN("<", fe, progs.LIT(1))),
                                      progs.EXPR(progs.BIN(">", fe, progs.LIT(1)))]
                op["fault"] = "force_unsat"
            ops.append(op)
        elif r < 0.82:
            ops.append({"op": "frand", "targets": [[p, []]], "k": st.lib.randint(0, 1 << 30)})
        elif r < 0.86 and list_paths:
            # list edits anywhere in the tree (also below non-random sub-objects)
            lp, lf = rng.choice(list_paths)
            if rng.random() < 0.75:
                ops.append({"op": "lappend", "p": p, "path": lp,
                            "v": gi.in_range_value({"k": "s", "w": lf["w"], "s": lf["s"]})})
            else:
                ops.append({"op": "lclear", "p": p, "path": lp})
        elif r < 0.92 and field_targets:
            # free-standing call on individual fields of the object (raw-mode references)
            k = rng.randint(1, min(2, len(field_targets)))
            sel = rng.sample(field_targets, k)
            op = {"targets": [[p, q] for (q, f_) in sel], "k": st.lib.randint(0, 1 << 30), "fields": True}
            if rng.random() < 0.6:
                op["op"] = "frw"
                op["ctx"] = p
                q0, f0 = sel[0]
                fe = {"t": "f", "p": q0}
                if rng.random() < 0.4:
                    op["inline"] = [progs.EXPR(progs.BIN("<", fe, progs.LIT(1))),
                                    progs.EXPR(progs.BIN(">", fe, progs.LIT(1)))]
                    op["fault"] = "force_unsat"
                else:
                    op["inline"] = [progs.simple_stmt(rng, [dict(f0, _p=q0)])]
            else:
                op["op"] = "frand"
            ops.append(op)
        else:
            names = [f["n"] for f in sa]
            k = rng.randint(1, len(names))
            sel = sorted(rng.sample(names, k))
            op = {"op": "sa_call", "names": sel, "k": st.lib.randint(0, 1 << 30)}
            if rng.random() < 0.6:
                # inline constraint; may mention a stand-alone field that is NOT passed
                fs = [dict(f, _p=[f["n"]]) for f in sa]
                op["inline"] = progs.strip([gi.stmt(fs, 1, kinds=["expr", "expr", "in"], nest=0)])
            if rng.random() < 0.3:
                f = rng.choice(sa)
                op["pre_assign"] = [f["n"], rng.randint(0, (1 << f["w"]) - 1)]
            ops.append(op)
    return ops


def sample(rec):
    return {"seed": rec["seed"], "prog": rec["prog"], "sa": rec["sa"], "ops": rec["ops"][:12],
            "n_ops": len(rec["ops"])}


def shrink(rec):
    return progs.shrink_record(rec, limit=120)


def tags(rec, viol):
    d = viol.get("detail", {})
    t = ["kind:" + str(d.get("kind"))]
    if d.get("unpassed_referenced"):
        t.append("sa:unpassed-field-referenced-inline")
    return t


def refs_in(obj, out):
    if isinstance(obj, dict):
        if obj.get("t") in ("f", "ps") and obj.get("p"):
            out.add(obj["p"][0])
        for v in obj.values():
            refs_in(v, out)
    elif isinstance(obj, list):
        for v in obj:
            refs_in(v, out)


class SA(object):
    pass


def execute(rec):
    from .. import randworld, builder
    import vsc
    from vsc.model.rand_state import RandState
    from vsc.model.solve_failure import SolveFailure
    P = refsem.Prog(rec["prog"])
    w = randworld.World(rec["prog"])
    top = rec["prog"]["top"]
    prng = _r.Random(rec["probe_seed"])
    stats = {"frame_checks": 0, "frame_fields": 0, "probe_pairs": 0, "faults_fired": {},
             "rand_mode_ops": 0, "rl_ops": 0, "sa_calls": 0, "calls": 0, "failed_calls": 0,
             "control_builds": 0}
    viol = []
    obs = []
    nontrivial = False
    # stand-alone fields
    sa = SA()
    sa_env = builder.Env({"enums": [], "classes": []}, world=w, tag="_sa")
    for f in rec["sa"]:
        setattr(sa, f["n"], vsc.rand_bit_t(f["w"]) if f.get("r", True) else vsc.bit_t(f["w"]))
    sa_cls = {"name": "SA", "fields": rec["sa"], "blocks": []}
    saP = refsem.Prog({"enums": [], "classes": [sa_cls]})

    def sa_tree():
        return {f["n"]: int(getattr(sa, f["n"]).get_val()) for f in rec["sa"]}

    if rec["prog"].get("globals"):
        for f in rec["sa"]:
            getattr(sa, f["n"]).get_model()       # (a stand-alone field builds its model on demand)
        w.env.globals = {f["n"]: getattr(sa, f["n"]) for f in rec["sa"]}
        w.globals_reader = sa_tree

    for oi, op in enumerate(rec["ops"]):
        kind = op["op"]
        if "p" in op and op["p"] >= len(w.parties):
            continue
        if kind in ("frand", "frw") and op["targets"][0][0] >= len(w.parties):
            continue
        if kind == "sa_call":
            stats["sa_calls"] += 1
            if op.get("pre_assign"):
                getattr(sa, op["pre_assign"][0]).set_val(op["pre_assign"][1])
            before = sa_tree()
            fields = [getattr(sa, n) for n in op["names"]]
            st_ = "ok"
            try:
                if op.get("inline") is not None:
                    with vsc.randomize_with(*fields, randstate=RandState.mkFromSeed(op["k"])):
                        sa_env.stmts(op["inline"], sa, [])
                else:
                    vsc.randomize(*fields, randstate=RandState.mkFromSeed(op["k"]))
            except SolveFailure:
                st_ = "solvefail"
            except Exception as e:
                st_ = "exc:" + type(e).__name__
            after = sa_tree()
            obs.append((oi, kind, st_, after))
            stats["frame_checks"] += 1
            refd = set()
            refs_in(op.get("inline"), refd)
            for f in rec["sa"]:
                if f["n"] in op["names"]:
                    continue
                stats["frame_fields"] += 1
                if before[f["n"]] != after[f["n"]]:
                    viol.append({"inv": "C03.frame",
                                 "cls": "C03.frame/standalone",
                                 "detail": {"op": oi, "kind": "vsc.randomize_with(subset)" if op.get("inline") is not None else "vsc.randomize(subset)",
                                            "field": f["n"], "before": before, "after": after,
                                            "passed": op["names"], "status": st_,
                                            "unpassed_referenced": f["n"] in refd}})
                    break
            if viol:
                break
            continue
        if kind in ("randomize", "rw", "frand", "frw"):
            p = op["p"] if "p" in op else op["targets"][0][0]
            pt = w.parties[p]
            before = w.tree(p)
            if op.get("fields"):
                # only the fields passed to the call are random in it
                rpaths = set(refsem.path_key(t[1]) for t in op["targets"])
                stats["field_calls"] = stats.get("field_calls", 0) + 1
            else:
                rpaths = set(refsem.path_key(q) for q in w.rand_paths(p, before))
            others = [(i, w.tree(i)) for i in range(len(w.parties)) if i != p]
            out = w.apply(op)
            after = w.tree(p)
            stats["calls"] += 1
            if out["st"] != "ok":
                stats["failed_calls"] += 1
            if op.get("fault") and out["st"] == "solvefail":
                stats["faults_fired"]["force_unsat"] = stats["faults_fired"].get("force_unsat", 0) + 1
            obs.append((oi, kind, out["st"], after))
            stats["frame_checks"] += 1
            bad = None
            for q in refsem.all_scalar_paths(P, pt.cname, before):
                if refsem.path_key(q) in rpaths:
                    continue
                stats["frame_fields"] += 1
                nontrivial = True
                try:
                    b = refsem._walk(after, q)
                except (IndexError, KeyError):
                    b = None
                if refsem._walk(before, q) != b:
                    bad = (q, refsem._walk(before, q), b)
                    break
            if bad is None and "$g" in before and before["$g"] != after.get("$g"):
                bad = (["<stand-alone fields>"], before["$g"], after.get("$g"))
            if bad is None:
                for (i, t) in others:
                    if w.tree(i) != t:
                        bad = (["<other party %d>" % i], t, w.tree(i))
                        break
            if bad is not None:
                viol.append({"inv": "C03.frame", "cls": "C03.frame/object",
                             "detail": {"op": oi, "kind": kind, "status": out["st"], "path": bad[0],
                                        "before": bad[1], "after": bad[2],
                                        "rand_off": sorted(pt.rand_off)}})
                break
            # the values / list contents / rangelist contents current at the time of the call are
            # the ones the result satisfies
            if out["st"] == "ok" and not op.get("fields"):
                try:
                    fail = refsem.check_tree(P, pt.cname, after, pt.modes, pt.rangelists, op.get("inline"))
                    stats["result_checks"] = stats.get("result_checks", 0) + 1
                except refsem.RefError:
                    fail = None
                if fail is not None:
                    viol.append({"inv": "C03.constant_stale", "cls": "C03.constant_stale/result",
                                 "detail": {"op": oi, "kind": kind, "tree": after, "failing": fail,
                                            "rangelists": pt.rangelists}})
                    break
            # constants oracle: compare pin-probe verdicts with a fresh control object
            if kind == "randomize" and out["st"] in ("ok", "solvefail") and prng.random() < 0.4:
                cur = w.tree(p)
                rp = w.rand_paths(p, cur)
                if not rp or len(rp) > 10:
                    continue
                cw = randworld.World(rec["prog"], tag="_c%d" % oi)
                cw.env.globals = w.env.globals
                cw.globals_reader = w.globals_reader
                stats["control_builds"] += 1
                c = cw.new(pt.cname)
                cpt = cw.parties[c]
                # same rand_mode flags, rangelist contents, field values
                for key in sorted(pt.rand_off):
                    cw.apply({"op": "rand_mode", "p": c, "path": key.split("."), "on": False})
                if "rl0" in pt.rangelists:
                    cw.apply({"op": "rl", "p": c, "name": "rl0", "act": "clear", "items": []})
                    if pt.rangelists["rl0"]:
                        cw.apply({"op": "rl", "p": c, "name": "rl0", "act": "extend",
                                  "items": pt.rangelists["rl0"]})
                builder.sync_tree(cw.env, pt.cname, cpt.obj, cur)
                pts = []
                doms = [list(refsem.path_domain(P, pt.cname, q)) for q in rp]
                base_pt = tuple(refsem._walk(cur, q) for q in rp)
                if out["st"] == "ok":
                    pts.append(base_pt)
                    for _k in range(3):
                        i = prng.randrange(len(rp))
                        d = doms[i]
                        pts.append(base_pt[:i] + (prng.choice(d),) + base_pt[i + 1:])
                for _k in range(3):
                    pts.append(tuple(prng.choice(d) for d in doms))
                for c_pt in pts:
                    point = list(zip(rp, c_pt))
                    a = w.probe(p, point)
                    b = cw.probe(c, point)
                    stats["probe_pairs"] += 1
                    if a != b:
                        viol.append({"inv": "C03.constant_stale", "cls": "C03.constant_stale",
                                     "detail": {"op": oi, "kind": kind, "point": point,
                                                "treated_accepts": a, "control_accepts": b,
                                                "state": cur, "rand_off": sorted(pt.rand_off),
                                                "rangelists": pt.rangelists}})
                        break
                if viol:
                    break
            continue
        if kind == "assign":
            # the element may no longer exist after a list edit
            try:
                refsem._walk(w.tree(op["p"]), op["path"])
            except (IndexError, KeyError):
                continue
        out = w.apply(op)
        if kind == "new" and out["st"] != "ok":
            # nothing after this would be exercised: never let that pass silently
            raise RuntimeError("construction failed: %r" % (out,))
        if kind in ("lappend", "lclear"):
            stats["list_edits"] = stats.get("list_edits", 0) + 1
        if kind == "rand_mode":
            stats["rand_mode_ops"] += 1
        if kind == "rl":
            stats["rl_ops"] += 1
        obs.append((oi, kind, out["st"]))
    sig = progs.shape_sig(rec["prog"]["classes"]) + "|" + scen.op_sig(rec["ops"])
    return {"viol": viol, "stats": stats, "digest": kernel.digest(obs),
            "sigs": [kernel.digest(sig)[:16]] if nontrivial and stats["probe_pairs"] else [],
            "evals": stats["frame_checks"] + stats["probe_pairs"],
            "sim_ms": int(w.clock.elapsed * 1000)}

"""C05 - soft constraints are never fatal, honoured maximally, later ones win."""
import itertools
import random as _r

from .. import kernel, progs, refsem, scen
from ..kernel import Streams

ID = "C05"
LEVEL = "exploration"
RULE = ("one run = a small-domain program (<= 512 points) mixing hard and soft statements at block top "
        "level, under if/else-if/else and implies, in 1-3 class blocks and inline; 1-2 parties; 6-16 "
        "calls (randomize / randomize_with with inline hard+soft) with non-random assignments between "
        "them (priorities are accumulated per call and must be cleared). Reference: exhaustive "
        "enumeration; every soft is the formula guard -> expr; exact greedy-by-priority over every "
        "linear extension of the order the property fixes (later in the same block wins, inline over "
        "class). Oracles: hard-SAT => no failure; hard constraints hold; maximality (no violated soft "
        "could be added to hard + satisfied softs); result lies in the greedy result set of some "
        "linear extension. Non-trivial = a judged call with >=2 softs of which >=1 is violated or "
        "conflicts; distinct = (program shape, op 3-grams)."
        " Softs also inside a dynamic block referenced at a random position of the inline block; constraint_mode toggled between calls and from inside pre/post_randomize (the reference filters blocks by the modes in force during the solve).")
REAL = ["pyvsc (all of src/vsc)", "PyBoolector"]
STUB = ["user code (generated)", "stdout (sink)"]
ASSUMPTIONS = ["soft bodies and guards use shapes whose lowering C01 validates",
               "ties the property leaves open (softs of different class blocks) are accepted in any order"]
REQUIRED_NONZERO = {"*": ["cb_toggles", "judged_calls", "conflict_calls", "guarded_softs", "inline_softs",
                          "repeat_calls", "hard_unsat_calls"]}


def budget(tier):
    if tier == "thorough":
        return {"runs": 4000, "wall": 3000}
    return {"runs": 1200, "wall": 600}


def soft_stmt(g, fields):
    return {"t": "soft", "e": g.bool_expr(fields, 1)}


def mixed_stmts(g, rng, fields, lo, hi, nest=1):
    out = []
    for _ in range(rng.randint(lo, hi)):
        r = rng.random()
        if r < 0.4:
            out.append(soft_stmt(g, fields))
        elif r < 0.55 and nest > 0:
            s = {"t": "if", "c": g.bool_expr(fields, 1),
                 "then": mixed_stmts(g, rng, fields, 1, 2, nest - 1), "elifs": [], "else": None}
            if rng.random() < 0.3:
                s["elifs"].append([g.bool_expr(fields, 1), mixed_stmts(g, rng, fields, 1, 1, nest - 1)])
            if rng.random() < 0.5:
                s["else"] = mixed_stmts(g, rng, fields, 1, 2, nest - 1)
            out.append(s)
        elif r < 0.65 and nest > 0:
            out.append({"t": "implies", "c": g.bool_expr(fields, 1),
                        "body": mixed_stmts(g, rng, fields, 1, 2, nest - 1)})
        else:
            out.append(progs.simple_stmt(rng, fields) if rng.random() < 0.6 else
                       g.stmt(fields, 1, kinds=["expr", "in"], nest=0))
    return out


def generate(seed, tier):
    st = Streams(seed)
    rng = st.prog
    for attempt in range(20):
        cfg = {"widths": rng.choice([[1, 2, 3], [2, 3], [2], [3]]), "max_fields": 3, "min_fields": 2,
               "signed": rng.random() < 0.5, "nonrand": rng.random() < 0.6, "depth": 1,
               "ps": False, "shifts": False, "divmod": False, "arith": ["+", "-"], "soft": True}
        g = progs.Gen(rng, cfg)
        c = g.flat_class("K0")
        fields = progs.fields_with_paths(c)[0]
        c["blocks"] = [{"n": "c%d" % b, "stmts": mixed_stmts(g, rng, fields, 1, 3)}
                       for b in range(rng.randint(1, 3))]
        has_dyn = rng.random() < 0.35
        if has_dyn:
            # softs inside a dynamic block: they take part (at the position of the reference)
            # only in calls whose inline block references it
            c["blocks"].append({"n": "dz", "dyn": True, "stmts": mixed_stmts(g, rng, fields, 1, 2, nest=0)})
        toggles = rng.random() < 0.35
        if toggles:
            c["cb"] = True       # pre/post_randomize exist (they may switch blocks on / off)
        prog = {"enums": [], "classes": [progs.strip(c)], "top": "K0"}
        if scen.rand_domain_size(prog, "K0") <= 512:
            break
    orng = st.ops
    go = progs.Gen(orng, cfg)
    n_parties = orng.choice([1, 1, 2])
    ops = []
    for p in range(n_parties):
        ops.append({"op": "new", "cls": "K0"})
        ops.append({"op": "seed", "p": p, "k": st.lib.randint(0, 1 << 30)})
    nr = scen.nonrand_fields(prog, "K0")
    for _ in range(orng.randint(6, 14 if tier == "quick" else 30)):
        p = orng.randrange(n_parties)
        r = orng.random()
        cblocks = [b["n"] for b in prog["classes"][0]["blocks"] if not b.get("dyn")]
        if toggles and r < 0.12:
            # constraint_mode between calls: a switched-off block contributes neither hard nor soft
            ops.append({"op": "cmode", "p": p, "path": [], "block": orng.choice(cblocks),
                        "on": orng.random() < 0.5})
        elif r < 0.4:
            op_ = {"op": "randomize", "p": p}
            if toggles and orng.random() < 0.4:
                # ... and from inside the callbacks of the call itself
                op_["pre_cmode"] = [orng.choice(cblocks), orng.random() < 0.7]
                if orng.random() < 0.6:
                    op_["post_cmode"] = [op_["pre_cmode"][0], False]
            ops.append(op_)
        elif r < 0.5:
            # a call that fails (contradictory hard inline block) - per-call soft state must
            # not survive it
            f = fields[0]
            fe = {"t": "f", "p": f["_p"]}
            ops.append({"op": "rw", "p": p, "fault": "force_unsat",
                        "inline": progs.strip(mixed_stmts(go, orng, fields, 1, 1, nest=0)) +
                        [progs.EXPR(progs.BIN("<", fe, progs.LIT(1))), progs.EXPR(progs.BIN(">", fe, progs.LIT(1)))]})
        elif r < 0.8:
            inl = progs.strip(mixed_stmts(go, orng, fields, 1, 2, nest=1))
            if has_dyn and orng.random() < 0.6:
                inl.insert(orng.randint(0, len(inl)), progs.EXPR({"t": "dynref", "n": "dz", "p": []}))
            op_ = {"op": "rw", "p": p, "inline": inl}
            if toggles and orng.random() < 0.4:
                op_["pre_cmode"] = [orng.choice(cblocks), orng.random() < 0.7]
                if orng.random() < 0.6:
                    op_["post_cmode"] = [op_["pre_cmode"][0], False]
            ops.append(op_)
        elif nr:
            f = orng.choice(nr)
            ops.append({"op": "assign", "p": p, "path": [f["n"]], "v": go.in_range_value(f)})
        else:
            ops.append({"op": "seed", "p": p, "k": st.lib.randint(0, 1 << 30)})
    if toggles:
        # episode: a block with a soft is only ever on *during* calls (pre_randomize switches it
        # on, post_randomize off again) while the inline block states the opposite soft: whatever
        # per-call bookkeeping the block carries must start afresh in every one of these calls
        sb = [(b["n"], s_["e"]) for b in prog["classes"][0]["blocks"] if not b.get("dyn")
              for s_ in b["stmts"] if s_["t"] == "soft"]
        if sb and orng.random() < 0.7:
            bn, se = orng.choice(sb)
            p = orng.randrange(n_parties)
            ep = [{"op": "cmode", "p": p, "path": [], "block": bn, "on": True},
                  {"op": "randomize", "p": p, "post_cmode": [bn, False]}]
            for _ in range(orng.randint(3, 6)):
                ep.append({"op": "rw", "p": p, "inline": [{"t": "soft", "e": {"t": "not", "e": se}}],
                           "pre_cmode": [bn, True], "post_cmode": [bn, False]})
            at = orng.randint(2 * n_parties, len(ops))
            ops[at:at] = ep
    if has_dyn:
        # episode: the same inline block - a reference to the dynamic block followed by the
        # opposite of one of its softs - several times in a row on one object; the later
        # (inline) soft must win every time, not only the first
        dsoft = [s_["e"] for b in prog["classes"][0]["blocks"] if b.get("dyn")
                 for s_ in b["stmts"] if s_["t"] == "soft"]
        if dsoft and orng.random() < 0.8:
            se = orng.choice(dsoft)
            p = orng.randrange(n_parties)
            ep = [{"op": "rw", "p": p, "inline": [progs.EXPR({"t": "dynref", "n": "dz", "p": []}),
                                                   {"t": "soft", "e": {"t": "not", "e": se}}]}
                  for _ in range(orng.randint(3, 5))]
            at = orng.randint(2 * n_parties, len(ops))
            ops[at:at] = ep
    return {"prop": ID, "seed": seed, "prog": prog, "ops": ops}


def sample(rec):
    return {"seed": rec["seed"], "prog": rec["prog"], "ops": rec["ops"][:10], "n_ops": len(rec["ops"])}


def shrink(rec):
    return progs.shrink_record(rec, limit=150)


def tags(rec, viol):
    return []


# ---------------------------------------------------------------------------
# reference
# ---------------------------------------------------------------------------
def collect_softs(stmts, guards, out, chain):
    """softs in statement order; each as (guards, expr, chain id)"""
    for s in stmts:
        t = s["t"]
        if t == "soft":
            out.append({"g": list(guards), "e": s["e"], "chain": chain})
        elif t == "if":
            collect_softs(s["then"], guards + [("pos", s["c"])], out, chain)
            neg = [("neg", s["c"])]
            for (c, body) in s.get("elifs", []):
                collect_softs(body, guards + neg + [("pos", c)], out, chain)
                neg = neg + [("neg", c)]
            if s.get("else") is not None:
                collect_softs(s["else"], guards + neg, out, chain)
        elif t == "implies":
            collect_softs(s["body"], guards + [("pos", s["c"])], out, chain)


def soft_true(soft, cx):
    for (pol, c) in soft["g"]:
        v = refsem.truth(c, cx)
        if (pol == "pos") != v:
            return True, False          # guard false: formula true, not applicable
    return refsem.truth(soft["e"], cx), True


def linear_extensions(chains, cap=24):
    """orders (lists of soft indices, highest priority first).  chains: list of
    lists of indices in statement order (later = higher priority); the last
    chain (inline) ranks above all others"""
    inline = chains[-1]
    cls = [c for c in chains[:-1] if c]
    # interleavings of class chains preserving each chain's order (ascending priority)
    def merge(lists):
        lists = [l for l in lists if l]
        if not lists:
            yield []
            return
        for i, l in enumerate(lists):
            rest = lists[:i] + [l[1:]] + lists[i + 1:]
            for m in merge(rest):
                yield [l[0]] + m
    out = []
    for m in merge(cls):
        asc = m + inline                       # ascending priority
        out.append(list(reversed(asc)))
        if len(out) >= cap:
            return out, False
    return out, True


def execute(rec):
    from .. import randworld
    P = refsem.Prog(rec["prog"])
    w = randworld.World(rec["prog"])
    stats = {"judged_calls": 0, "conflict_calls": 0, "guarded_softs": 0, "inline_softs": 0,
             "repeat_calls": 0, "ambiguous_skipped": 0, "hard_unsat_calls": 0, "orders_truncated": 0,
             "all_softs_kept": 0}
    viol = []
    obs = []
    cache = {}
    calls_on = {}
    nontrivial = False
    cur = {"op": None}

    def handler(obj, phase, cname):
        op_ = cur["op"]
        tg = op_ and op_.get("pre_cmode" if phase == "pre" else "post_cmode")
        if tg:
            getattr(obj, tg[0]).constraint_mode(bool(tg[1]))
            stats["cb_toggles"] = stats.get("cb_toggles", 0) + 1
    w.cb_handler = handler
    for oi, op in enumerate(rec["ops"]):
        if "p" in op and op["p"] >= len(w.parties):
            continue
        kind = op["op"]
        if kind not in ("randomize", "rw"):
            out = w.apply(op)
            obs.append((oi, kind, out["st"]))
            continue
        p = op["p"]
        pt = w.parties[p]
        before = w.tree(p)
        rpaths = w.rand_paths(p, before)
        inline = op.get("inline") or []
        # blocks in force for this call: the modes left by earlier toggles, then pre_randomize's
        eff = dict(pt.modes.get("", {}))
        if op.get("pre_cmode"):
            eff[op["pre_cmode"][0]] = bool(op["pre_cmode"][1])
        key = kernel.digest([before and {k: v for k, v in before.items()
                                         if [k] not in rpaths}, inline, sorted(eff.items())])
        cur["op"] = op
        try:
            out = w.apply(op)
        finally:
            cur["op"] = None
        for tg in (op.get("pre_cmode"), op.get("post_cmode")):
            # (the callbacks ran unless the call was aborted before them; a failed solve never
            # reaches post_randomize)
            if tg and (tg is op.get("pre_cmode") or out["st"] == "ok"):
                pt.modes.setdefault("", {})[tg[0]] = bool(tg[1])
        calls_on[p] = calls_on.get(p, 0) + 1
        if calls_on[p] > 1:
            stats["repeat_calls"] += 1
        after = w.tree(p) if out["st"] == "ok" else None
        obs.append((oi, kind, out["st"], after))
        try:
            if key not in cache:
                cache[key] = analyse(P, pt.cname, before, rpaths, inline, {"": eff})
            an = cache[key]
        except refsem.RefError:
            stats["ambiguous_skipped"] += 1
            continue
        hard, softs, tables, chains = an
        if not hard:
            stats["hard_unsat_calls"] += 1
            continue        # C02's business
        detail = {"op": oi, "kind": kind, "before": before, "n_softs": len(softs), "outcome": out}
        if out["st"] != "ok":
            viol.append({"inv": "C05.fatal", "cls": "C05.fatal/" + out["st"] + "/" + str(out.get("exc")),
                         "detail": detail})
            break
        stats["judged_calls"] += 1
        pt_key = tuple(refsem._walk(after, q) for q in rpaths)
        detail["after"] = after
        if pt_key not in hard:
            viol.append({"inv": "C05.hard_holds", "cls": "C05.hard_holds", "detail": detail})
            break
        stats["guarded_softs"] += len([s for s in softs if s["g"]])
        stats["inline_softs"] += len(chains[-1])
        if len(softs) == 0:
            continue
        sat = [i for i in range(len(softs)) if pt_key in tables[i]]
        vio = [i for i in range(len(softs)) if pt_key not in tables[i]]
        keep = set(hard)
        for i in sat:
            keep &= tables[i]
        # maximality
        for i in vio:
            if keep & tables[i]:
                detail["violated_soft"] = softs[i]
                detail["satisfied"] = sat
                viol.append({"inv": "C05.not_maximal", "cls": "C05.not_maximal", "detail": detail})
                break
        if viol:
            break
        allkept = set(hard)
        for t in tables:
            allkept &= t
        if allkept:
            stats["all_softs_kept"] += 1
        else:
            stats["conflict_calls"] += 1
            if len(softs) >= 2:
                nontrivial = True
        # greedy by priority over every admissible order
        orders, complete = linear_extensions(chains)
        if not complete:
            stats["orders_truncated"] += 1
            continue
        ok = False
        for order in orders:
            F = set(hard)
            for i in order:
                F2 = F & tables[i]
                if F2:
                    F = F2
            if pt_key in F:
                ok = True
                break
        if not ok:
            detail["satisfied"] = sat
            detail["violated"] = vio
            detail["softs"] = softs
            viol.append({"inv": "C05.priority", "cls": "C05.priority", "detail": detail})
            break
    sig = progs.shape_sig(rec["prog"]["classes"]) + "|" + scen.op_sig(rec["ops"])
    return {"viol": viol, "stats": stats, "digest": kernel.digest(obs),
            "sigs": [kernel.digest(sig)[:16]] if nontrivial else [],
            "evals": stats["judged_calls"], "sim_ms": int(w.clock.elapsed * 1000)}


def expand_dyn(P, cname, inline):
    """bare references to dynamic blocks replaced by the block's statements, in place"""
    out = []
    for s in inline:
        if s["t"] == "expr" and s["e"].get("t") == "dynref" and not s["e"].get("p"):
            blk = [b for b in P.blocks(cname, dynamic=True) if b["n"] == s["e"]["n"]]
            out.extend(blk[0]["stmts"])
        else:
            out.append(s)
    return out


def analyse(P, cname, tree, rpaths, inline, modes=None):
    """hard-feasible set, softs, per-soft truth tables (sets of points), chains"""
    inline = expand_dyn(P, cname, inline)
    softs = []
    chains = []
    for b in P.blocks(cname):
        if (modes or {}).get("", {}).get(b["n"], True) is False:
            continue
        start = len(softs)
        collect_softs(b["stmts"], [], softs, b["n"])
        chains.append(list(range(start, len(softs))))
    start = len(softs)
    collect_softs(inline, [], softs, "<inline>")
    chains.append(list(range(start, len(softs))))
    doms = [list(refsem.path_domain(P, cname, q)) for q in rpaths]
    n = 1
    for d in doms:
        n *= len(d)
    if n > 4096:
        raise refsem.RefError("domain too large")
    t = refsem.copy_tree(tree)
    hard = set()
    tables = [set() for _ in softs]
    cx = refsem.Cx(P, cname, t)
    for combo in itertools.product(*doms):
        for q, v in zip(rpaths, combo):
            refsem.set_path(t, q, v)
        if refsem.check_tree(P, cname, t, modes, None, inline) is not None:
            continue
        hard.add(combo)
        for i, s in enumerate(softs):
            val, _ = soft_true(s, cx)
            if val:
                tables[i].add(combo)
    return hard, softs, tables, chains

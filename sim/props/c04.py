"""C04 - list constraints hold on exactly the list the user sees."""
import random as _r

from .. import kernel, progs, refsem, scen
from ..kernel import Streams

ID = "C04"
LEVEL = "exploration"
RULE = ("one run = a generated class with 1-3 lists (fixed-size random / non-random scalar lists incl. "
        "sizes 0 and 1, random-size lists with size constraints admitting 0 and 1, enum lists, an "
        "object list) and foreach bodies using element and/or index (index arithmetic, guarded "
        "neighbour relations, object fields), sum / unique / unique_vec / size / in-list constraints; "
        "6-24 ops: randomize / randomize_with interleaved with append / extend / clear / list "
        "assignment / element assignment. History matters because list storage is pre-extended during "
        "a call and reused by the next. Oracles after each successful call: len == size == "
        "len(list(l)), l[i] == list(l)[i], fixed-size lists keep their length, every constraint "
        "evaluated by the reference over exactly list(l); after each edit the exposed list equals the "
        "reference Python list. Non-trivial = a judged call on a list of length >= 2 after >= 1 edit or "
        "on a random-size list; distinct = (program shape, op 3-grams)."
        " Programs may hold a foreach inside a dynamic block referenced from inline blocks, foreach bodies branching on elements of a non-random list, a foreach below an if below a foreach; pin-probes of points next to each returned solution; witness oracle (pre-call state satisfies everything => the call must not fail).")
REAL = ["pyvsc (all of src/vsc)", "PyBoolector"]
STUB = ["user code (generated)", "stdout (sink)"]
ASSUMPTIONS = ["aggregates over random-size lists (sum/product/unique/in-list) are gated out of the "
               "generator: known finding KF-C04-RANDSZ-AGG (replayed by every run of the check)"]
REQUIRED_NONZERO = {"*": ["witness_calls", "probes", "judged_calls", "edits", "randsz_calls", "foreach_calls", "agg_calls",
                          "len_checks", "nested_appends"]}


def budget(tier):
    if tier == "thorough":
        return {"runs": 4000, "wall": 3000}
    return {"runs": 480, "wall": 600}


def generate(seed, tier):
    st = Streams(seed)
    def build(rng):
        cfg = {"widths": rng.choice([[2, 3], [2, 3, 4], [3]]), "signed": rng.random() < 0.5,
               "depth": 1, "max_stmts": 3, "max_blocks": 2, "ps": rng.random() < 0.5, "shifts": False, "divmod": False,
               "arith": ["+", "-"], "stmts": ["expr", "expr", "in"], "nonrand": True}
        g = progs.ListGen(rng, cfg)
        return g.list_program(gates=("randsz-aggregate",), extra=("cond_nonrand", "nested_if")), g, cfg
    prog, g, cfg = scen.prefer_sat(st, build, lambda o: "K0")
    k0 = [c for c in prog["classes"] if c["name"] == "K0"][0]
    dynl = [f for f in k0["fields"] if f["k"] == "l" and not f.get("rsz")]
    has_dyn = False
    rng = st.prog
    if dynl and rng.random() < 0.4:
        # a foreach inside a dynamic block, referenced from inline blocks only: it is unrolled
        # through the inline constraint, not through the class's own blocks
        own_ = [dict(f, _p=[f["n"]]) for f in k0["fields"] if f["k"] == "s"]
        gd = progs.ListGen(_r.Random(kernel.H(seed, "dynfe")), cfg)
        gd.enums = prog["enums"]
        k0["blocks"].append({"n": "dz", "dyn": True,
                             "stmts": [progs.strip(gd.foreach_scalar(rng.choice(dynl), own_))]})
        has_dyn = True
    P = refsem.Prog(prog)
    lists = [f for f in P.fields("K0") if f["k"] in ("l", "le")]
    orng = st.ops
    n_parties = orng.choice([1, 1, 2])
    ops = []
    for p in range(n_parties):
        ops.append({"op": "new", "cls": "K0"})
        ops.append({"op": "seed", "p": p, "k": st.lib.randint(0, 1 << 30)})
    own = progs.fields_with_paths(P.cls("K0"))[0]
    go = progs.Gen(orng, cfg)
    edefs = {e["name"]: e for e in prog["enums"]}
    rows = [f for f in P.fields("K0") if f["n"] == "rows"]
    fixed_idx = set()
    cur_len = {}

    def scan(o):
        if isinstance(o, dict):
            pth = o.get("p")
            if isinstance(pth, list) and len(pth) >= 2 and isinstance(pth[0], str) and isinstance(pth[1], int):
                fixed_idx.add(pth[0])
            for v in o.values():
                scan(v)
        elif isinstance(o, list):
            for v in o:
                scan(v)
    scan(prog["classes"])
    for _ in range(orng.randint(6, 20 if tier == "quick" else 48)):
        p = orng.randrange(n_parties)
        r = orng.random()
        if rows and r < 0.12:
            # make the inner lists ragged
            i = orng.randrange(rows[0]["sz"])
            ops.append({"op": "lappend", "p": p, "path": ["rows", i, "v"], "v": orng.randint(0, 3),
                        "nested": True})
        elif r < 0.45:
            ops.append({"op": "randomize", "p": p})
        elif r < 0.6 and own:
            inl = progs.strip(go.stmts(own, 1, lo=1, hi=1))
            if has_dyn and orng.random() < 0.7:
                inl.append(progs.EXPR({"t": "dynref", "n": "dz", "p": []}))
            ops.append({"op": "rw", "p": p, "inline": inl})
        else:
            lf = orng.choice(lists)

            def val():
                if lf["k"] == "le":
                    return orng.choice(edefs[lf["en"]]["items"])[1]
                return go.in_range_value({"k": "s", "w": lf["w"], "s": lf["s"]})
            k = orng.choice(["lappend", "lappend", "lextend", "lclear", "lassign", "setitem"])
            # keep lists short: 'unique' over more elements than the element type has values is a
            # pigeonhole instance on which the SAT solver itself needs exponential time
            ln = cur_len.setdefault((p, lf["n"]), max(lf.get("sz", 0), 5 if lf.get("rsz") else 0))
            if ln >= 7 and k in ("lappend", "lextend"):
                k = "setitem"
            if lf["n"] in prog.get("frozen", ()):
                # a foreach indexes a second list with this list's index: lengths stay as declared
                k = "setitem"
            if lf["n"] in fixed_idx and k in ("lclear", "lassign"):
                # a statement names an element of this list by a fixed index: never shrink it
                # (the library rejects a reference to a missing element with an explicit error)
                k = "lappend"
            if k == "lappend":
                ops.append({"op": "lappend", "p": p, "path": [lf["n"]], "v": val()})
                cur_len[(p, lf["n"])] = ln + 1
            elif k == "lextend":
                ops.append({"op": "lextend", "p": p, "path": [lf["n"]],
                            "v": [val() for _ in range(orng.randint(1, 3))]})
                cur_len[(p, lf["n"])] = ln + len(ops[-1]["v"])
            elif k == "lclear":
                ops.append({"op": "lclear", "p": p, "path": [lf["n"]]})
                cur_len[(p, lf["n"])] = 5 if lf.get("rsz") else 0
            elif k == "lassign":
                ops.append({"op": "lassign", "p": p, "path": [lf["n"]],
                            "v": [val() for _ in range(orng.randint(0, 4))]})
                cur_len[(p, lf["n"])] = max(len(ops[-1]["v"]), 5 if lf.get("rsz") else 0)
            else:
                ops.append({"op": "setitem", "p": p, "path": [lf["n"]], "i": orng.randint(0, 3), "v": val()})
    return {"prop": ID, "seed": seed, "prog": prog, "ops": ops}


def sample(rec):
    return {"seed": rec["seed"], "prog": rec["prog"], "ops": rec["ops"][:12], "n_ops": len(rec["ops"])}


def shrink(rec):
    return progs.shrink_record(rec, limit=150)


def has_node(obj, kinds):
    if isinstance(obj, dict):
        if obj.get("t") in kinds:
            return True
        return any(has_node(v, kinds) for v in obj.values())
    if isinstance(obj, list):
        return any(has_node(v, kinds) for v in obj)
    return False


def tags(rec, viol):
    t = []
    P = refsem.Prog(rec["prog"])
    rsz = [f["n"] for f in P.fields(rec["prog"]["top"]) if f.get("rsz")]
    if rsz:
        t.append("has-randsz-list")
        for b in P.blocks(rec["prog"]["top"]):
            for s in b["stmts"]:
                txt = str(s)
                if any(("'%s'" % n) in txt for n in rsz) and (
                        has_node(s, ("sum", "product", "inlist")) or s["t"] in ("unique", "unique_vec")):
                    t.append("randsz-aggregate")
    return sorted(set(t))


def execute(rec):
    from .. import randworld, builder
    P = refsem.Prog(rec["prog"])
    top = rec["prog"]["top"]
    w = randworld.World(rec["prog"])
    stats = {"judged_calls": 0, "edits": 0, "randsz_calls": 0, "foreach_calls": 0, "agg_calls": 0,
             "len_checks": 0, "ambiguous_skipped": 0, "solvefail": 0, "edit_errors": 0}
    viol = []
    obs = []
    lists = [f for f in P.fields(top) if f["k"] in ("l", "le", "lo")]
    has_foreach = has_node(rec["prog"]["classes"], ("foreach",))
    has_agg = has_node(rec["prog"]["classes"], ("sum", "product", "inlist", "flist"))
    has_rsz = any(f.get("rsz") for f in lists)
    prng = _r.Random(kernel.H(rec.get("seed", 0), "c04probe"))
    edited = set()
    nontrivial = False

    def exposed(p, lf):
        l = getattr(w.parties[p].obj, lf["n"])
        if lf["k"] == "lo":
            return [id(x) for x in l]
        return [int(v) for v in l]

    def len_agree(p, oi, when):
        for lf in lists:
            l = getattr(w.parties[p].obj, lf["n"])
            it = exposed(p, lf)
            stats["len_checks"] += 1
            facts = {"len": len(l), "size": int(l.size), "iter": len(it)}
            if not (facts["len"] == facts["size"] == facts["iter"]):
                viol.append({"inv": "C04.len_agree", "cls": "C04.len_agree/" + when,
                             "detail": {"op": oi, "list": lf["n"], "facts": facts}})
                return True
            if lf["k"] != "lo":
                for i in range(len(it)):
                    v = l[i]
                    if int(v) != it[i]:
                        viol.append({"inv": "C04.len_agree", "cls": "C04.len_agree/index_vs_iter",
                                     "detail": {"op": oi, "list": lf["n"], "i": i, "index": int(v),
                                                "iter": it[i]}})
                        return True
        return False

    for oi, op in enumerate(rec["ops"]):
        if "p" in op and op["p"] >= len(w.parties):
            continue
        kind = op["op"]
        p = op.get("p")
        if kind == "lappend" and op.get("nested"):
            out = w.apply(op)
            stats["nested_appends"] = stats.get("nested_appends", 0) + 1
            obs.append((oi, "nested_append", out["st"]))
            continue
        if kind in ("lappend", "lextend", "lclear", "lassign", "setitem"):
            lf = P.field(top, op["path"][0])
            before = exposed(p, lf)
            if kind == "setitem":
                if op["i"] >= len(before):
                    continue
                out = w.apply({"op": "assign", "p": p, "path": [lf["n"], op["i"]], "v": op["v"]})
                exp = list(before)
                exp[op["i"]] = op["v"]
            else:
                out = w.apply(op)
                if kind == "lappend":
                    exp = before + [op["v"]]
                elif kind == "lextend":
                    exp = before + list(op["v"])
                elif kind == "lclear":
                    exp = []
                else:
                    exp = list(op["v"])
            stats["edits"] += 1
            edited.add((p, lf["n"]))
            after = exposed(p, lf)
            obs.append((oi, kind, out["st"], after))
            if out["st"] != "ok":
                stats["edit_errors"] += 1
                viol.append({"inv": "C04.edit_exposed", "cls": "C04.edit_exposed/raised/" + kind,
                             "detail": {"op": oi, "list": lf["n"], "outcome": out, "before": before}})
                break
            if after != exp:
                viol.append({"inv": "C04.edit_exposed", "cls": "C04.edit_exposed/" + kind,
                             "detail": {"op": oi, "list": lf["n"], "before": before, "expected": exp,
                                        "after": after, "randsz": bool(lf.get("rsz"))}})
                break
            if len_agree(p, oi, "after_edit"):
                break
            continue
        if kind not in ("randomize", "rw"):
            out = w.apply(op)
            obs.append((oi, kind, out["st"]))
            continue
        pt = w.parties[p]
        lens_before = {lf["n"]: len(exposed(p, lf)) for lf in lists}
        # unique_vec over lists of different length is rejected by the library
        # with an explicit message (a usage error, not judged here)
        mismatch = False
        for b in P.blocks(top):
            for s_ in b["stmts"]:
                if s_["t"] == "unique_vec" and len(set(lens_before[a["p"][0]] for a in s_["args"])) > 1:
                    mismatch = True
        witness = (not mismatch) and w.witness(op)
        pre = w.tree(p) if witness else None
        out = w.apply(op)
        if mismatch:
            stats["ambiguous_skipped"] += 1
            obs.append((oi, kind, out["st"]))
            continue
        if out["st"] != "ok":
            if out["st"] == "solvefail":
                stats["solvefail"] += 1
            obs.append((oi, kind, out["st"], out.get("exc")))
            if out["st"] == "exc":
                viol.append({"inv": "C04.body_holds", "cls": "C04.exception/%s/%s" % (out.get("exc"), out.get("where")),
                             "detail": {"op": oi, "outcome": out}})
                break
            if witness:
                # the exposed lists as they stood satisfy every constraint: only a constraint built
                # over something else (stale / hidden elements) can have made the call fail
                viol.append({"inv": "C04.body_holds", "cls": "C04.body_holds/fails_with_witness",
                             "detail": {"op": oi, "state": pre, "outcome": out}})
                break
            continue
        if witness:
            stats["witness_calls"] = stats.get("witness_calls", 0) + 1
        tree = w.tree(p)
        obs.append((oi, kind, "ok", tree))
        stats["judged_calls"] += 1
        if has_foreach:
            stats["foreach_calls"] += 1
        if has_agg:
            stats["agg_calls"] += 1
        if has_rsz:
            stats["randsz_calls"] += 1
        if len_agree(p, oi, "after_call"):
            break
        for lf in lists:
            if not lf.get("rsz") and len(tree[lf["n"]]) != lens_before[lf["n"]]:
                viol.append({"inv": "C04.fixed_len", "cls": "C04.fixed_len",
                             "detail": {"op": oi, "list": lf["n"], "before": lens_before[lf["n"]],
                                        "after": len(tree[lf["n"]])}})
                break
            if (len(tree[lf["n"]]) >= 2 and (p, lf["n"]) in edited) or lf.get("rsz"):
                nontrivial = True
        if viol:
            break
        try:
            fail = refsem.check_tree(P, pt.cname, tree, pt.modes, pt.rangelists, op.get("inline"))
        except refsem.RefError:
            stats["ambiguous_skipped"] += 1
            continue
        if fail is not None:
            blk = [b for b in P.blocks(top) if b["n"] == fail["block"]]
            st = blk[0]["stmts"][fail["stmt"]] if blk else None
            inv = "C04.body_holds"
            if st is not None and has_node(st, ("size",)) and not has_node(st, ("foreach", "sum")):
                inv = "C04.size_constraint"
            viol.append({"inv": inv, "cls": inv + "/" + (st["t"] if st else "inline"),
                         "detail": {"op": oi, "kind": kind, "tree": tree, "failing": fail, "stmt": st}})
            break
        # pin-probes: points next to the returned one must be accepted exactly when the reference
        # accepts them (a body enforced where its guard is false, or on elements the list does
        # not expose, shows as a rejected legal point)
        if not has_rsz and prng.random() < 0.3:
            rp = w.rand_paths(p, tree)
            # (an element of a list inside a list element cannot be named by fixed indices in an
            # inline constraint: the library raises NotImplementedError - no probes there)
            if rp and not any(sum(isinstance(x, int) for x in q) > 1 for q in rp):
                doms = [refsem.path_domain(P, pt.cname, q) for q in rp]
                base = [refsem._walk(tree, q) for q in rp]
                for _ in range(2):
                    i = prng.randrange(len(rp))
                    c = list(base)
                    c[i] = doms[i][prng.randrange(len(doms[i]))]
                    t2 = refsem.copy_tree(tree)
                    refsem.set_path(t2, rp[i], c[i])
                    try:
                        exp = refsem.check_tree(P, pt.cname, t2, pt.modes, pt.rangelists) is None
                    except refsem.RefError:
                        continue
                    got = w.probe(p, list(zip(rp, c)))
                    stats["probes"] = stats.get("probes", 0) + 1
                    stats["probe_accept_expected" if exp else "probe_reject_expected"] = \
                        stats.get("probe_accept_expected" if exp else "probe_reject_expected", 0) + 1
                    if got != exp:
                        viol.append({"inv": "C04.body_holds",
                                     "cls": "C04.body_holds/probe_" + ("accepts_excluded" if got else "rejects_allowed"),
                                     "detail": {"op": oi, "point": list(zip(rp, c)), "accepted": got,
                                                "expected": exp, "tree": t2}})
                        break
                if viol:
                    break
    sig = progs.shape_sig(rec["prog"]["classes"]) + "|" + scen.op_sig(rec["ops"])
    return {"viol": viol, "stats": stats, "digest": kernel.digest(obs),
            "sigs": [kernel.digest(sig)[:16]] if nontrivial and stats["judged_calls"] else [],
            "evals": stats["judged_calls"] + stats["edits"], "sim_ms": int(w.clock.elapsed * 1000)}

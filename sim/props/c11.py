"""C11 - cross bins count joint hits of their coverpoints."""
from .. import covcheck, kernel
from . import c10

ID = "C11"
LEVEL = "exploration"
RULE = ("one run = a generated covergroup with 2-3 coverpoints of mixed bin kinds (explicit bins, bin "
        "arrays with and without count, auto-bins: so flat index offsets behind array bins matter) and a "
        "cross of 2-3 of them, iff on the cross and/or on crossed coverpoints (field or callable); 1-3 "
        "instances; sample sequences that contain samples missing every bin, gated-off samples followed "
        "by gated-on samples with the same and with different values. After every sample: number, names "
        "(<cpbin,cpbin>) and order of cross bins; exactly the reference tuple bin incremented by one, "
        "otherwise nothing; instance and type. Non-trivial = a cross with >= 4 bins that saw >= 1 gated "
        "and >= 1 missing sample; distinct = distinct (coverpoint specs, cross spec).")
REAL = ["pyvsc coverage model (coverpoint_cross_model.py, covergroup_model.py, coverpoint_model.py, coverage.py)"]
STUB = ["user code (generated covergroup classes, callables)", "stdout (sink)"]
ASSUMPTIONS = ["crossed coverpoints have pairwise disjoint bins (a sample hits at most one bin per coverpoint)"]
REQUIRED_NONZERO = {"*": ["samples", "cross_checks", "gated_samples", "miss_after_gate", "outside_samples"]}


def budget(tier):
    if tier == "thorough":
        return {"runs": 12000, "wall": 3000}
    return {"runs": 1600, "wall": 600}


def generate(seed, tier):
    return c10.generate(seed, tier, feats={"cross": True, "iff": True}, focus=ID)


sample = c10.sample
shrink = c10.shrink
tags = c10.tags


def execute(rec):
    viol, stats, obs, clock = covcheck.execute_cov(rec, ID)
    out = c10.finish(rec, viol, stats, obs, clock, ID)
    out["sigs"] = [kernel.digest([out["sigs"], [(cr["cps"], cr.get("iff") is not None)
                                                  for cg in rec["prog"]["cgs"] for v in cg["variants"]
                                                  for cr in v.get("crosses", [])]])[:16]] \
        if any(v.get("crosses") for cg in rec["prog"]["cgs"] for v in cg["variants"]) else []
    return out

"""C09 - random stability: results depend only on seed, model and call history."""
import random as _r

from .. import kernel, progs, refsem, scen
from ..kernel import Streams

ID = "C09"
LEVEL = "exploration"
CROSS_HASHSEED = True
RULE = ("one run = one scenario (program + per-party call histories + RandState seeds) executed in "
        "4-6 variant worlds inside one interpreter - different interleavings of the parties' histories, "
        "noise (other objects constructed/randomized, global-random draws, gc, junk allocation), "
        "debug=1 / solve_fail_debug=1, srcinfo capture, profiling with a jumping simulated clock - plus "
        "the same scenario again in a fresh interpreter under another PYTHONHASHSEED; oracle: every "
        "party's value trace is identical in all variants; snapshot/restore, shared RandState, argument "
        "mutation and default-state (global random seed) sub-scenarios. Non-trivial = >=1 party produced "
        ">=2 successful calls with >=1 random field; distinct = (program shape, op 3-grams, variant mask)."
        " Seeds use both mkFromSeed(n) and mkFromSeed(n, string); snapshots are taken on brand-new objects, right after a seed, and after calls.")
REAL = ["pyvsc (all of src/vsc)", "PyBoolector", "Python random module (global and per-object)",
        "interpreter hash randomisation (real PYTHONHASHSEED per worker)", "gc / allocator"]
STUB = ["wall clock (SimClock patched into vsc.model.randomizer.time)", "user code (generated)",
        "stdout (sink)"]
ASSUMPTIONS = ["a party's projection of the history = its own ops in order; other parties' ops and "
               "noise are 'unrelated activity'",
               "Boolector is deterministic for a given formula sequence (self-test)"]
REQUIRED_NONZERO = {"*": ["variants", "noise_ops", "snap_checks", "default_state_checks",
                          "shared_state_checks", "strict_noise_ops"]}


def budget(tier):
    if tier == "thorough":
        return {"runs": 3000, "wall": 3000}
    return {"runs": 300, "wall": 600}


def generate(seed, tier):
    st = Streams(seed)
    small = st.prog.random() < 0.5
    prog, g, top, kind = scen.mixed_program(st, small)
    n_parties = st.ops.choice([1, 2, 2, 3])
    n_ops = st.ops.randint(6, 24 if tier == "quick" else 48)
    ops = scen.history_ops(st, prog, g, n_parties, n_ops,
                           mix={"randomize": 55, "rw": 25, "assign": 12, "frand": 8}, cname=top)
    # sometimes one party has no explicit random state: its sequence must then be a function of
    # the global random seed and its own calls only (explicitly seeded activity of the other
    # parties must not draw from the global random module)
    unseeded = None
    if n_parties >= 2 and st.ops.random() < 0.45:
        unseeded = st.ops.randrange(n_parties)
        ops = [o for o in ops if not (o["op"] == "seed" and o.get("p") == unseeded)]
        for o in ops:
            if o["op"] == "frand" and o["targets"][0][0] == unseeded:
                o["k"] = None
    # a second, unrelated class for the noise party
    st2 = Streams(kernel.H(seed, "noiseprog"))
    nprog, _, _ = scen.flat_program(st2, True)
    nprog["classes"][0]["name"] = "N0"
    vr = st.noise
    variants = [{"name": "base", "merge": None}]
    for i in range(vr.randint(3, 5)):
        variants.append({
            "name": "v%d" % (i + 1),
            "merge": vr.randint(0, 1 << 30) if n_parties > 1 else None,
            "noise": vr.randint(0, 1 << 30) if vr.random() < 0.7 else None,
            "debug": vr.random() < 0.25,
            "sfd": vr.random() < 0.25,
            "srcinfo": vr.random() < 0.25,
            "capture": vr.random() < 0.2,
            "profile": vr.random() < 0.25,
        })
    # some seeds use the (number, string) form of RandState.mkFromSeed
    svr = st.sub("seedstr")
    for o in ops:
        if o["op"] == "seed" and svr.random() < 0.35:
            o["sv"] = svr.choice(["t", "test_a", "uvm_test_top.env.agent[%d]" % svr.randint(0, 9), "", "Zürich"])
    return {"prop": ID, "seed": seed, "prog": prog, "noise_prog": nprog, "ops": ops,
            "variants": variants, "gseed": st.lib.randint(0, 1 << 30), "top": top, "kind": kind,
            "unseeded": unseeded,
            "sub": st.ops.choice(["snap", "shared", "mutate", "default"]),
            "sub_seed": st.lib.randint(0, 1 << 30)}


def _extra(st):
    return None


def sample(rec):
    return {"seed": rec["seed"], "prog": rec["prog"], "ops": rec["ops"][:10],
            "variants": rec["variants"], "sub": rec["sub"]}


def shrink(rec):
    out = []
    vs = rec["variants"]
    if len(vs) > 2:
        for i in range(1, len(vs)):
            c = dict(rec)
            c["variants"] = vs[:i] + vs[i + 1:]
            out.append(c)
    for i in range(1, len(vs)):
        for k in ("noise", "debug", "sfd", "srcinfo", "capture", "profile", "merge"):
            if vs[i].get(k):
                c = dict(rec)
                v2 = dict(vs[i])
                v2[k] = None
                c["variants"] = vs[:i] + [v2] + vs[i + 1:]
                out.append(c)
    return out + progs.shrink_record(rec)


def tags(rec, viol):
    return []


def party_hist(ops):
    n = 0
    hist = {}
    for op in ops:
        if op["op"] == "new":
            hist[n] = [op]
            n += 1
        elif "p" in op and op["p"] in hist:
            hist[op["p"]].append(op)
        elif op["op"] == "frand" and op["targets"][0][0] in hist:
            hist[op["targets"][0][0]].append(op)
    return hist


def interleave(hist, merge_seed):
    """merge of per-party histories; each party's own order is kept.  Creation
    ops come first in party order (party index = creation order); the base
    variant (merge_seed None) is round robin, others a seeded random merge."""
    rng = _r.Random(merge_seed if merge_seed is not None else 0)
    pos = {}
    out = []
    for p in sorted(hist):
        out.append((p, 0))
        pos[p] = 1
    live = [p for p in sorted(hist) if pos[p] < len(hist[p])]
    rr = 0
    while live:
        if merge_seed is None:
            p = live[rr % len(live)]
            rr += 1
        else:
            p = rng.choice(live)
        out.append((p, pos[p]))
        pos[p] += 1
        live = [q for q in live if pos[q] < len(hist[q])]
    return out


def run_variant(rec, vi, stats):
    from .. import randworld
    import vsc
    import vsc.impl.ctor as ctor
    import vsc.profile as vprofile
    import vsc.model.randomizer as vrand
    v = rec["variants"][vi]
    prog = rec["prog"]
    if v.get("srcinfo"):
        prog = dict(prog)
        prog["classes"] = [dict(c, srcinfo=True) for c in prog["classes"]]
    merged = {"enums": prog.get("enums", []) + [dict(e, name="N" + e["name"]) for e in
                                                 rec["noise_prog"].get("enums", [])],
              "classes": prog["classes"] + _rename_enums(rec["noise_prog"])["classes"]}
    w = randworld.World(merged, tag="_%d" % vi)
    old_cap, old_prof, old_time = ctor.glbl_capture_srcinfo, vprofile._enabled, vrand.time
    if v.get("capture"):
        ctor.glbl_capture_srcinfo = 1
    if v.get("profile"):
        vprofile._enabled = 1
        vrand.time = w.clock
    nrng = _r.Random(v["noise"]) if v.get("noise") is not None else None
    hist = party_hist(rec["ops"])
    order = interleave(hist, v.get("merge"))
    traces = {p: [] for p in hist}
    pmap = {}
    noise_parties = []
    try:
        _r.seed(rec["gseed"])
        for (p, i) in order:
            if nrng is not None and nrng.random() < 0.5:
                _noise(w, nrng, noise_parties, stats, strict=rec.get("unseeded") is not None)
            op = dict(hist[p][i])
            if op["op"] == "new":
                out = w.apply(op)
                pmap[p] = out["p"]
                continue
            if p not in pmap:
                continue
            if "p" in op:
                op["p"] = pmap[p]
            if op["op"] == "frand":
                op["targets"] = [[pmap[p], t[1]] for t in op["targets"]]
            if op["op"] in ("randomize", "rw", "frand"):
                if v.get("debug"):
                    op["debug"] = 1
                if v.get("sfd") and op["op"] != "frand":
                    op["sfd"] = 1
            out = w.apply(op)
            tr = (i, op["op"], out["st"], out.get("exc"))
            if op["op"] in ("randomize", "rw", "frand"):
                tr = tr + (w.tree(pmap[p]),)
            traces[p].append(tr)
    finally:
        ctor.glbl_capture_srcinfo, vprofile._enabled, vrand.time = old_cap, old_prof, old_time
    stats["clock_reads"] = stats.get("clock_reads", 0) + w.clock.reads
    stats["clock_jumps"] = stats.get("clock_jumps", 0) + w.clock.jumps
    return traces, w


def _rename_enums(nprog):
    import copy
    c = copy.deepcopy(nprog)

    def fix(o):
        if isinstance(o, dict):
            if "en" in o:
                o["en"] = "N" + o["en"]
            for v in o.values():
                fix(v)
        elif isinstance(o, list):
            for v in o:
                fix(v)
    fix(c["classes"])
    return c


def _noise(w, nrng, noise_parties, stats, strict=False):
    stats["noise_ops"] = stats.get("noise_ops", 0) + 1
    kinds = ["new", "rand", "rand", "grand", "gc", "junk", "clock", "gseed"]
    if strict:
        # a party without explicit state exists: only noise that must not touch global random
        kinds = ["new", "rand", "rand", "gc", "junk", "clock", "frand"]
        stats["strict_noise_ops"] = stats.get("strict_noise_ops", 0) + 1
    k = nrng.choice(kinds)
    if k == "new" or (k in ("rand", "frand") and not noise_parties):
        out = w.apply({"op": "new", "cls": "N0"})
        if out["st"] == "ok":
            noise_parties.append(out["p"])
            if strict:
                w.apply({"op": "seed", "p": out["p"], "k": nrng.randint(0, 1 << 30)})
    elif k == "frand":
        w.apply({"op": "frand", "targets": [[nrng.choice(noise_parties), []]], "k": nrng.randint(0, 1 << 30)})
    elif k == "rand":
        w.apply({"op": "randomize", "p": nrng.choice(noise_parties)})
    elif k == "grand":
        w.apply({"op": "noise", "kind": "grand", "n": nrng.randint(1, 5)})
    elif k == "gseed":
        w.apply({"op": "noise", "kind": "gseed", "k": nrng.randint(0, 1 << 30)})
    elif k == "gc":
        w.apply({"op": "noise", "kind": "gc"})
    elif k == "junk":
        w.apply({"op": "noise", "kind": "junk", "n": nrng.randint(100, 5000)})
    elif k == "clock":
        w.apply({"op": "noise", "kind": "clock", "dt": nrng.choice([3600.0, -7200.0, 86400.0, -1.0])})


def first_diff(a, b):
    for p in sorted(a):
        ta, tb = a[p], b.get(p, [])
        for k in range(max(len(ta), len(tb))):
            xa = ta[k] if k < len(ta) else None
            xb = tb[k] if k < len(tb) else None
            if xa != xb:
                return {"party": p, "pos": k, "a": xa, "b": xb}
    return None


# ---------------------------------------------------------------------------
# sub-scenarios on random state handling
# ---------------------------------------------------------------------------
def calls_of(rec, n=4):
    return [o for o in rec["ops"] if o["op"] in ("randomize", "rw") and o.get("p", 0) == 0][:n] or \
        [{"op": "randomize", "p": 0}, {"op": "randomize", "p": 0}]


def _shape(t):
    if isinstance(t, dict):
        return {k: _shape(v) for k, v in t.items()}
    if isinstance(t, list):
        return [_shape(v) for v in t]
    return 0


def do_calls(w, p, calls):
    out = []
    for c in calls:
        c = dict(c)
        c["p"] = p
        o = w.apply(c)
        out.append((o["st"], o.get("exc"), w.tree(p)))
    return out


def sub_scenario(rec, stats, viol):
    from .. import randworld, builder
    from vsc.model.rand_state import RandState
    import vsc
    kind = rec["sub"]
    w = randworld.World(rec["prog"], tag="_s")
    calls = calls_of(rec)
    k = rec["sub_seed"]
    if kind == "snap":
        # the snapshot is taken at one of three moments: on a brand-new object (its state is still
        # the default one, created on demand from the global random module), right after an
        # explicit seed, or after some calls
        at = k % 3
        if at == 0:
            _r.seed(k)
        p = w.new(rec.get("top", "K0"))
        if at != 0:
            w.apply({"op": "seed", "p": p, "k": k})
        if at == 2:
            do_calls(w, p, calls[:2])
        stats["snap_at_%d" % at] = stats.get("snap_at_%d" % at, 0) + 1
        t0 = w.tree(p)
        snap = w.parties[p].obj.get_randstate()
        first = do_calls(w, p, calls)
        for rep in range(2):       # the snapshot itself must be unaffected by later calls
            if _shape(w.tree(p)) != _shape(t0):
                return             # a random-size list changed length: state cannot be re-assigned
            builder.write_tree(w.env, rec.get("top", "K0"), w.parties[p].obj, t0)
            w.parties[p].obj.set_randstate(snap)
            again = do_calls(w, p, calls)
            stats["snap_checks"] = stats.get("snap_checks", 0) + 1
            if again != first:
                viol.append({"inv": "C09.snapshot_replay" if rep == 0 else "C09.snapshot_aliased",
                             "detail": {"first": first, "again": again, "rep": rep}})
                return
    elif kind == "shared":
        a, b = w.new(rec.get("top", "K0")), w.new(rec.get("top", "K0"))
        rs = RandState.mkFromSeed(k)
        w.parties[a].obj.set_randstate(rs)
        ta = do_calls(w, a, calls)
        w.parties[b].obj.set_randstate(rs)      # same RandState object seeds a second object
        tb = do_calls(w, b, calls)
        stats["shared_state_checks"] = stats.get("shared_state_checks", 0) + 1
        if ta != tb:
            viol.append({"inv": "C09.snapshot_aliased",
                         "detail": {"what": "one RandState seeding two objects", "a": ta, "b": tb}})
    elif kind == "mutate":
        a, b = w.new(rec.get("top", "K0")), w.new(rec.get("top", "K0"))
        rs = RandState.mkFromSeed(k)
        w.parties[a].obj.set_randstate(rs)
        for _ in range(5):
            rs.randint(0, 1000)                  # mutating the argument afterwards
        ta = do_calls(w, a, calls)
        w.parties[b].obj.set_randstate(RandState.mkFromSeed(k))
        tb = do_calls(w, b, calls)
        stats["shared_state_checks"] = stats.get("shared_state_checks", 0) + 1
        if ta != tb:
            viol.append({"inv": "C09.snapshot_aliased",
                         "detail": {"what": "argument mutated after set_randstate", "a": ta, "b": tb}})
        got = w.parties[a].obj.get_randstate()
        got.randint(0, 1000)                     # mutating a returned snapshot
        t1 = do_calls(w, a, calls[:2])
        w2 = randworld.World(rec["prog"], tag="_s2")
        c = w2.new(rec.get("top", "K0"))
        w2.parties[c].obj.set_randstate(RandState.mkFromSeed(k))
        do_calls(w2, c, calls)
        t2 = do_calls(w2, c, calls[:2])
        if t1 != t2:
            viol.append({"inv": "C09.snapshot_aliased",
                         "detail": {"what": "get_randstate result mutated", "a": t1, "b": t2}})
    elif kind == "default":
        res = []
        for rep in range(2):
            ww = randworld.World(rec["prog"], tag="_d%d" % rep)
            _r.seed(k)
            a = ww.new(rec.get("top", "K0"))
            seq = do_calls(ww, a, calls)
            fr = ww.apply({"op": "frand", "targets": [[a, []]]})
            seq.append((fr["st"], ww.tree(a)))
            res.append(seq)
        stats["default_state_checks"] = stats.get("default_state_checks", 0) + 1
        if res[0] != res[1]:
            viol.append({"inv": "C09.default_state", "detail": {"a": res[0], "b": res[1]}})


def execute(rec):
    stats = {"variants": 0, "noise_ops": 0, "snap_checks": 0, "default_state_checks": 0,
             "shared_state_checks": 0, "ok_calls": 0}
    viol = []
    base, w0 = run_variant(rec, 0, stats)
    stats["variants"] += 1
    for vi in range(1, len(rec["variants"])):
        tr, _ = run_variant(rec, vi, stats)
        stats["variants"] += 1
        d = first_diff(base, tr)
        if d is not None:
            viol.append({"inv": "C09.variant_trace",
                         "detail": {"variant": rec["variants"][vi], "diff": d}})
            break
    if not viol:
        sub_scenario(rec, stats, viol)
    ok = 0
    for p in base:
        ok = max(ok, len([t for t in base[p] if t[2] == "ok" and len(t) > 4]))
    stats["ok_calls"] = sum(len([t for t in base[p] if t[2] == "ok" and len(t) > 4]) for p in base)
    mask = "".join("1" if any(v.get(k) for v in rec["variants"]) else "0"
                   for k in ("merge", "noise", "debug", "sfd", "srcinfo", "capture", "profile"))
    sig = progs.shape_sig(rec["prog"]["classes"]) + "|" + scen.op_sig(rec["ops"]) + "|" + mask + rec["sub"]
    stats["kind_" + rec.get("kind", "flat")] = 1
    xd = kernel.digest([[p, base[p]] for p in sorted(base)])
    return {"viol": viol, "stats": stats, "digest": xd, "xdigest": xd,
            "sigs": [kernel.digest(sig)[:16]] if ok >= 2 else [],
            "evals": stats["variants"] + stats["snap_checks"] + stats["default_state_checks"] +
            stats["shared_state_checks"],
            "sim_ms": int(w0.clock.elapsed * 1000)}

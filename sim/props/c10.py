"""C10 - coverpoint bins count exactly the samples whose value they contain."""
from .. import covcheck, covgen, kernel
from ..kernel import Streams

ID = "C10"
LEVEL = "exploration"
RULE = ("one run = a generated covergroup class (1-3 sample variables of width <= 5 bits, signed and "
        "unsigned, enum variables) whose coverpoints use explicit bins (values, disjoint / adjacent / "
        "unordered ranges), bin arrays with and without count, auto-bins with auto_bin_max, enum "
        "auto-bins, ignore / illegal sets, iff by field or callable, field or callable targets; 1-3 "
        "instances; a sample sequence in which every value of every variable's type appears, iff "
        "toggles included. After every sample: number, order and hit counts of all regular / ignore / "
        "illegal bins of every instance and of the type equal the set-based reference (so the value "
        "set of the i-th bin is the i-th reference set); a value outside every bin changes nothing. "
        "Non-trivial = >= 1 coverpoint with >= 2 bins and every type value sampled; distinct = "
        "distinct coverpoint specifications (bins/ignore/illegal/options).")
REAL = ["pyvsc coverage model (src/vsc/coverage.py, model/coverpoint*.py, rangelist_model.py, covergroup_model.py)"]
STUB = ["user code (generated covergroup classes, callables)", "stdout (sink)"]
ASSUMPTIONS = ["overlapping ranges inside one bin specification and wildcard bins are outside the "
               "quantifier (not generated)"]
REQUIRED_NONZERO = {"*": ["samples", "struct_checks", "gated_samples", "outside_samples", "ignore_specs",
                          "queries"]}


def budget(tier):
    if tier == "thorough":
        return {"runs": 24000, "wall": 3000}
    return {"runs": 2400, "wall": 600}


def generate(seed, tier, feats=None, focus="C10"):
    st = Streams(seed)
    rng = st.prog
    f = {"iff": rng.random() < 0.6, "cross": False, "ignore": rng.random() < 0.7,
         "opts": False, "enums": rng.random() < 0.3, "variants": False, "fn_target": rng.random() < 0.4,
         "share": rng.random() < 0.5}
    if feats:
        f.update(feats)
    prog = covgen.gen_program(rng, f, 1)
    cg = prog["cgs"][0]
    orng = st.ops
    ops = []
    n_inst = orng.choice([1, 1, 2, 3])
    for i in range(n_inst):
        ops.append({"op": "new_cg", "cls": cg["name"], "variant": orng.randrange(len(cg["variants"]))})
    # every value of every variable's type appears at least once
    import itertools
    data = [s for s in cg["samples"]]
    todo = []
    for s in data:
        if "en" in s:
            e = [x for x in prog["enums"] if x["name"] == s["en"]][0]
            vals = [v for (_, v) in e["items"]]
        elif s.get("gate"):
            vals = [0, 1]
        else:
            lo, hi = covgen.dom(s)
            vals = list(range(lo, hi + 1))
        for v in vals:
            base = covgen.sample_values(orng, cg, prog["enums"])
            base[s["n"]] = v
            if not s.get("gate"):
                for g in [x for x in cg["samples"] if x.get("gate")]:
                    base[g["n"]] = 1
            todo.append(base)
    for _ in range(orng.randint(5, 30)):
        todo.append(covgen.sample_values(orng, cg, prog["enums"]))
    orng.shuffle(todo)
    if tier == "quick":
        todo = todo[:160]
    fns = []
    for var in cg["variants"]:
        for cp in var["cps"]:
            if "fn" in cp["target"]:
                fns.append(cp["target"]["fn"])
            if cp.get("iff") and "fn" in cp["iff"]:
                fns.append("iff:" + cp["iff"]["fn"])
    for v in todo:
        op = {"op": "sample", "i": orng.randrange(n_inst), "vals": v}
        if fns and orng.random() < 0.06:
            op["fault"] = orng.choice(fns)
        ops.append(op)
        if orng.random() < 0.08:
            ops.append({"op": "query", "i": orng.randrange(n_inst)})
    return {"prop": focus, "seed": seed, "prog": prog, "ops": ops}


def sample(rec):
    return {"seed": rec["seed"], "prog": rec["prog"], "ops": rec["ops"][:8], "n_ops": len(rec["ops"])}


def shrink(rec):
    return []


def tags(rec, viol):
    return []


def cp_sigs(prog):
    out = []
    for cg in prog["cgs"]:
        for v in cg["variants"]:
            for cp in v["cps"]:
                out.append(kernel.digest([cp.get("bins"), cp.get("ignore"), cp.get("illegal"),
                                          cp.get("options"), cp.get("iff") is not None,
                                          list(cp["target"].keys())])[:16])
    return out


def execute(rec):
    viol, stats, obs, clock = covcheck.execute_cov(rec, ID)
    # outside-every-bin samples are counted from the reference
    return finish(rec, viol, stats, obs, clock, ID)


def finish(rec, viol, stats, obs, clock, pid):
    keep = []
    for v in viol:
        keep.append(v)
    stats["outside_samples"] = stats.get("outside_samples", 0) + count_outside(rec)
    return {"viol": keep, "stats": stats, "digest": kernel.digest(obs), "sigs": cp_sigs(rec["prog"]),
            "evals": stats["struct_checks"] + stats["cov_checks"] + stats["reports"] + stats["saves"],
            "sim_ms": int(clock.elapsed * 1000)}


def count_outside(rec):
    """samples whose value lies in no regular bin of some coverpoint (reference side)"""
    from .. import covworld
    n = 0
    cgs = {c["name"]: c for c in rec["prog"]["cgs"]}
    order = []
    refs = {}
    for op in rec["ops"]:
        if op["op"] == "new_cg":
            cg = cgs[op["cls"]]
            v = op.get("variant", 0) % len(cg["variants"])
            order.append((op["cls"], v))
            if (op["cls"], v) not in refs:
                refs[(op["cls"], v)] = covworld.RefCg(cg, v, rec["prog"].get("enums", []))
        elif op["op"] == "sample" and op["i"] < len(order):
            r = refs[order[op["i"]]]
            for cp in r.cps.values():
                t = cp.d["target"]
                val = op["vals"][t.get("var") or t.get("fn")]
                if not any(val in b for b in cp.bins):
                    n += 1
                    break
    return n

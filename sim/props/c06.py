"""C06 - inline and dynamic constraints bind to exactly one call and to the right object."""
import random as _r

from .. import kernel, progs, refsem, scen
from ..kernel import Streams

ID = "C06"
LEVEL = "exploration"
RULE = ("one run = a generated class with static blocks and 1-3 dynamic blocks, a container class "
        "holding instances in a list; 2-5 live instances created before AND after the one under test; "
        "10-40 ops of randomize_with (random inline sets, dynamic references through the instance or a "
        "list element, |, & and ~ combinations) interleaved with plain randomize. Oracles: the result of "
        "an inline call satisfies class AND inline AND the referenced dynamic blocks evaluated on the "
        "object they were referenced through; pin-probes during the call (with the same inline block) "
        "agree with the reference; after the call pin-probe verdicts equal those of a fresh control "
        "object that never saw an inline block (no trace); a dynamic block never restricts a call that "
        "does not reference it. Non-trivial = >=1 inline call with a dynamic reference judged and >=1 "
        "after-call probe pair; distinct = (program shape, op 3-grams, population size).")
REAL = ["pyvsc (all of src/vsc)", "PyBoolector"]
STUB = ["user code (generated)", "stdout (sink)"]
ASSUMPTIONS = ["dynamic and inline bodies use shapes whose lowering C01 validates; 'no trace' is judged "
               "against a control object of the same class (evaluator-free)"]
REQUIRED_NONZERO = {"*": ["dyn_calls", "inline_calls", "after_probe_pairs", "during_probes",
                          "bool_terms", "elem_dyn_calls", "aborted_blocks"]}


def budget(tier):
    if tier == "thorough":
        return {"runs": 3000, "wall": 3000}
    return {"runs": 320, "wall": 600}


def dyn_term(rng, names, path=None, depth=1):
    """Boolean term over dynamic-constraint references"""
    def ref():
        return {"t": "dynref", "n": rng.choice(names), "p": list(path or [])}
    r = rng.random()
    if depth <= 0 or r < 0.45:
        return ref()
    if r < 0.6:
        return {"t": "not", "e": ref()}
    op = rng.choice(["|", "&"])
    return progs.BIN(op, dyn_term(rng, names, path, depth - 1), dyn_term(rng, names, path, depth - 1))


def generate(seed, tier):
    st = Streams(seed)
    rng = st.prog
    prog, g, cfg = scen.flat_program(st, True, {"max_fields": 3, "enums": False})
    k0 = prog["classes"][0]
    fields = progs.fields_with_paths(k0)[0]
    nd = rng.randint(1, 3)
    gi = progs.Gen(rng, cfg)
    for i in range(nd):
        k0["blocks"].append({"n": "d%d" % i, "dyn": True,
                             "stmts": progs.strip([gi.stmt(fields, 1, kinds=["expr", "expr", "in", "if"], nest=1)
                                                   for _ in range(rng.choice([1, 2, 2, 3]))])})
    dnames = ["d%d" % i for i in range(nd)]
    cont = {"name": "T0", "fields": [
        {"n": "y", "k": "s", "w": 2, "s": False, "r": True, "i": 0},
        {"n": "ol", "k": "lo", "c": "K0", "r": True, "sz": rng.randint(2, 3)}], "blocks": []}
    prog["classes"].append(cont)
    prog["top"] = "K0"
    orng = st.ops
    n_before = orng.randint(1, 3)
    n_after = orng.randint(0, 2)
    ops = []
    n = 0
    for _ in range(n_before):
        ops.append({"op": "new", "cls": "K0"})
        ops.append({"op": "seed", "p": n, "k": st.lib.randint(0, 1 << 30)})
        n += 1
    has_t = orng.random() < 0.5
    if has_t:
        ops.append({"op": "new", "cls": "T0"})
        ops.append({"op": "seed", "p": n, "k": st.lib.randint(0, 1 << 30)})
        tpi = n
        n += 1
    pending = n_after
    n_ops = orng.randint(10, 30 if tier == "quick" else 60)
    go = progs.Gen(orng, cfg)
    k_parties = [i for i in range(n) if not (has_t and i == tpi)]
    for _ in range(n_ops):
        r = orng.random()
        if pending and r < 0.12:
            ops.append({"op": "new", "cls": "K0"})
            ops.append({"op": "seed", "p": n, "k": st.lib.randint(0, 1 << 30)})
            k_parties.append(n)
            n += 1
            pending -= 1
            continue
        if has_t and r < 0.3:
            # dynamic constraint referenced through a list element of the container
            idx = orng.randrange(cont["fields"][1]["sz"])
            ops.append({"op": "rw", "p": tpi,
                        "inline": [progs.EXPR(dyn_term(orng, dnames, ["ol", idx], orng.choice([0, 1])))
                                   for _ in range(orng.choice([1, 1, 2]))],
                        "dyn": True, "elem": True})
            continue
        p = orng.choice(k_parties)
        if r < 0.55:
            inl = [progs.EXPR(dyn_term(orng, dnames, [], orng.choice([0, 1, 1])))
                   for _ in range(orng.choice([1, 1, 2, 3]))]
            if orng.random() < 0.4:
                inl = progs.strip(go.stmts(fields, 1, lo=1, hi=1)) + inl
            orng.shuffle(inl)
            ops.append({"op": "rw", "p": p, "inline": inl, "dyn": True})
        elif r < 0.62:
            # the with-block body raises after writing some constraints: nothing of it may
            # reach a later call on any object
            ops.append({"op": "rw", "p": p, "aborted": True,
                        "inline": progs.strip(go.stmts(fields, 1, lo=1, hi=2)) + [{"t": "raise"}]})
        elif r < 0.75:
            ops.append({"op": "rw", "p": p, "inline": progs.strip(go.stmts(fields, 1, lo=1, hi=2))})
        else:
            ops.append({"op": "randomize", "p": p})
    return {"prop": ID, "seed": seed, "prog": prog, "ops": ops,
            "probe_seed": st.fault.randint(0, 1 << 30)}


def sample(rec):
    return {"seed": rec["seed"], "prog": rec["prog"], "ops": rec["ops"][:12], "n_ops": len(rec["ops"])}


def shrink(rec):
    return progs.shrink_record(rec, limit=120)


def tags(rec, viol):
    return []


def count_terms(e):
    if isinstance(e, dict):
        n = 1 if (e.get("t") == "not" or (e.get("t") == "bin" and e.get("op") in ("|", "&"))) else 0
        return n + sum(count_terms(v) for v in e.values())
    if isinstance(e, list):
        return sum(count_terms(v) for v in e)
    return 0


def execute(rec):
    from .. import randworld, builder
    P = refsem.Prog(rec["prog"])
    w = randworld.World(rec["prog"])
    prng = _r.Random(rec["probe_seed"])
    stats = {"dyn_calls": 0, "inline_calls": 0, "after_probe_pairs": 0, "during_probes": 0,
             "bool_terms": 0, "elem_dyn_calls": 0, "plain_calls": 0, "judged": 0,
             "ambiguous_skipped": 0, "solvefail": 0}
    viol = []
    obs = []
    had_dyn = False
    had_after = False

    def points(p, cur, n=4):
        pt = w.parties[p]
        rp = w.rand_paths(p, cur)
        if not rp or len(rp) > 12:
            return rp, []
        doms = [list(refsem.path_domain(P, pt.cname, q)) for q in rp]
        base = tuple(refsem._walk(cur, q) for q in rp)
        pts = [base]
        for _ in range(n):
            i = prng.randrange(len(rp))
            pts.append(base[:i] + (prng.choice(doms[i]),) + base[i + 1:])
        pts.append(tuple(prng.choice(d) for d in doms))
        return rp, pts

    for oi, op in enumerate(rec["ops"]):
        if "p" in op and op["p"] >= len(w.parties):
            continue
        kind = op["op"]
        witness = w.witness(op)
        pre = w.tree(op["p"]) if witness else None
        out = w.apply(op)
        if kind not in ("randomize", "rw"):
            obs.append((oi, kind, out["st"]))
            continue
        p = op["p"]
        pt = w.parties[p]
        inline = op.get("inline")
        aborted = bool(op.get("aborted"))
        if aborted:
            stats["aborted_blocks"] = stats.get("aborted_blocks", 0) + 1
            obs.append((oi, kind, out["st"]))
        if kind == "rw" and not aborted:
            stats["inline_calls"] += 1
            if op.get("dyn"):
                stats["dyn_calls"] += 1
                stats["bool_terms"] += count_terms(inline)
                if op.get("elem"):
                    stats["elem_dyn_calls"] += 1
        else:
            stats["plain_calls"] += 1
        if out["st"] == "exc" and not aborted:
            obs.append((oi, kind, "exc", out.get("exc")))
            viol.append({"inv": "C06.boolean_term" if op.get("dyn") else "C06.not_conjoined",
                         "cls": "C06.exception/%s/%s" % (out.get("exc"), out.get("where")),
                         "detail": {"op": oi, "outcome": out, "inline": inline}})
            break
        tree = w.tree(p)
        if not aborted:
            obs.append((oi, kind, out["st"], tree if out["st"] == "ok" else None))
        if out["st"] == "solvefail":
            stats["solvefail"] += 1
            if witness:
                # the pre-call values satisfy class blocks + this call's inline block: an earlier
                # call's inline / dynamic constraint must still be in force
                viol.append({"inv": "C06.leak_after", "cls": "C06.leak_after/fails_with_witness",
                             "detail": {"op": oi, "state": pre, "inline": inline}})
                break
        elif witness and out["st"] == "ok":
            stats["witness_calls"] = stats.get("witness_calls", 0) + 1
        # (conjoined / right object / boolean term) result of the call
        if out["st"] == "ok" and not aborted:
            try:
                fail = refsem.check_tree(P, pt.cname, tree, pt.modes, pt.rangelists, inline)
                stats["judged"] += 1
            except refsem.RefError:
                stats["ambiguous_skipped"] += 1
                fail = None
            if fail is not None:
                inv = "C06.not_conjoined"
                if op.get("dyn") and fail["block"] == "<inline>":
                    inv = "C06.wrong_instance" if count_terms(inline) == 0 else "C06.boolean_term"
                viol.append({"inv": inv, "cls": inv + "/result",
                             "detail": {"op": oi, "party": p, "n_parties": len(w.parties),
                                        "tree": tree, "failing": fail, "inline": inline}})
                break
        if op.get("dyn"):
            had_dyn = True
        # during-call probes: implementation verdict with the same inline block
        if kind == "rw" and not aborted and prng.random() < 0.5:
            rp, pts = points(p, tree, 3)
            for c in pts:
                t = refsem.copy_tree(tree)
                for q, v in zip(rp, c):
                    refsem.set_path(t, q, v)
                try:
                    exp = refsem.check_tree(P, pt.cname, t, pt.modes, pt.rangelists, inline) is None
                except refsem.RefError:
                    stats["ambiguous_skipped"] += 1
                    continue
                got = w.probe(p, list(zip(rp, c)), extra_inline=inline)
                stats["during_probes"] += 1
                if got != exp:
                    inv = "C06.wrong_instance" if op.get("dyn") else "C06.not_conjoined"
                    if op.get("dyn") and count_terms(inline):
                        inv = "C06.boolean_term"
                    viol.append({"inv": inv, "cls": inv + "/probe_" + ("accepts_excluded" if got else "rejects_allowed"),
                                 "detail": {"op": oi, "party": p, "n_parties": len(w.parties),
                                            "point": list(zip(rp, c)), "accepted": got, "expected": exp,
                                            "inline": inline}})
                    break
            if viol:
                break
        # (one call only) afterwards the object behaves like one that never saw the inline block
        if kind == "rw" and (aborted or prng.random() < 0.5):
            # (always right after an aborted block: the very next with-block is the probe)
            if aborted and len(w.parties) > 1 and prng.random() < 0.5:
                # ... on another object: nothing may leak across objects either
                p = prng.choice([q for q in range(len(w.parties)) if q != p and w.parties[q].cname == "K0"] or [p])
                pt = w.parties[p]
            cur = w.tree(p)
            rp, pts = points(p, cur, 4)
            # treated object first: constructing the control object is itself library use
            treated = [w.probe(p, list(zip(rp, c))) for c in pts]
            cw = randworld.World(rec["prog"], tag="_c%d" % oi)
            c_ix = cw.new(pt.cname)
            builder.write_tree(cw.env, pt.cname, cw.parties[c_ix].obj, cur)
            for c, a in zip(pts, treated):
                point = list(zip(rp, c))
                b = cw.probe(c_ix, point)
                stats["after_probe_pairs"] += 1
                had_after = True
                if a != b:
                    viol.append({"inv": "C06.leak_after", "cls": "C06.leak_after/" + ("stricter" if b else "looser"),
                                 "detail": {"op": oi, "party": p, "point": point, "treated_accepts": a,
                                            "control_accepts": b, "inline": inline}})
                    break
            if viol:
                break
    sig = progs.shape_sig(rec["prog"]["classes"]) + "|" + scen.op_sig(rec["ops"]) + "|%d" % len(w.parties)
    return {"viol": viol, "stats": stats, "digest": kernel.digest(obs),
            "sigs": [kernel.digest(sig)[:16]] if had_dyn and had_after else [],
            "evals": stats["judged"] + stats["during_probes"] + stats["after_probe_pairs"],
            "sim_ms": int(w.clock.elapsed * 1000)}

"""Shared executor for the coverage properties C10-C13: interprets a coverage
record (program + ops), keeps the reference in step and applies the oracles of
the requested focus property after every op."""
import io
import random as _r

from . import covgen, covworld, kernel


class Inst(object):
    def __init__(self, cls, variant, obj, ref, tkey):
        self.cls = cls
        self.variant = variant
        self.obj = obj
        self.ref = ref
        self.tkey = tkey
        self.last_cov = None
        self.last_inst_cov = None


def cmp_struct(impl, ref, where, focus, viol, check_cross=True):
    """compare implementation counters (read_model) with a RefCg"""
    if impl["cp_order"] != ref.cp_order:
        viol.append({"inv": focus + ".bin_layout" if focus == "C10" else focus + ".report_content",
                     "cls": focus + "/coverpoint_order", "detail": {"where": where, "impl": impl["cp_order"],
                                                                   "ref": ref.cp_order}})
        return False
    for n in ref.cp_order:
        rc, ic = ref.cps[n], impl["cps"][n]
        if len(ic["hits"]) != len(rc.bins):
            viol.append({"inv": "C10.bin_layout", "cls": "C10.bin_layout/count",
                         "detail": {"where": where, "cp": n, "impl_bins": ic["names"],
                                    "ref_bins": [sorted(b) for b in rc.bins], "spec": rc.d}})
            return False
        if ic["hits"] != rc.hits:
            viol.append({"inv": "C10.bin_hits", "cls": "C10.bin_hits",
                         "detail": {"where": where, "cp": n, "impl_hits": ic["hits"], "ref_hits": rc.hits,
                                    "impl_bins": ic["names"], "ref_bins": [sorted(b) for b in rc.bins],
                                    "spec": rc.d}})
            return False
        if ic["ign"] != rc.ign_hits or ic["ill"] != rc.ill_hits:
            viol.append({"inv": "C10.ignore_illegal", "cls": "C10.ignore_illegal",
                         "detail": {"where": where, "cp": n, "impl": [ic["ign"], ic["ill"]],
                                    "ref": [rc.ign_hits, rc.ill_hits], "spec": rc.d}})
            return False
    if check_cross:
        if impl["cross_order"] != [c.name for c in ref.crosses]:
            viol.append({"inv": "C11.cross_layout", "cls": "C11.cross_layout/order",
                         "detail": {"where": where, "impl": impl["cross_order"]}})
            return False
        for c in ref.crosses:
            ic = impl["crosses"][c.name]
            if len(ic["hits"]) != len(c.tuples):
                viol.append({"inv": "C11.cross_layout", "cls": "C11.cross_layout/count",
                             "detail": {"where": where, "cross": c.name, "impl": len(ic["hits"]),
                                        "ref": len(c.tuples)}})
                return False
            # names are "<cpbin,cpbin>" in coverpoint order, bins ordered after the coverpoints
            exp_names = []
            for t in c.tuples:
                exp_names.append("<" + ",".join(impl["cps"][cp.name]["names"][k]
                                                for cp, k in zip(c.cps, t)) + ">")
            if ic["names"] != exp_names:
                viol.append({"inv": "C11.cross_layout", "cls": "C11.cross_layout/names",
                             "detail": {"where": where, "cross": c.name, "impl": ic["names"][:12],
                                        "ref": exp_names[:12]}})
                return False
            if ic["hits"] != c.hits:
                d = [i for i in range(len(c.hits)) if ic["hits"][i] != c.hits[i]]
                inv = "C11.cross_spurious" if any(ic["hits"][i] > c.hits[i] for i in d) else "C11.cross_hit"
                viol.append({"inv": inv, "cls": inv,
                             "detail": {"where": where, "cross": c.name, "differs_at": d[:6],
                                        "impl": [ic["hits"][i] for i in d[:6]],
                                        "ref": [c.hits[i] for i in d[:6]],
                                        "names": [ic["names"][i] for i in d[:6]]}})
                return False
    return True


def close(a, b):
    return abs(a - b) < 5e-3


def execute_cov(rec, focus):
    import vsc
    from vsc.impl.coverage_registry import CoverageRegistry
    CoverageRegistry._inst = None
    prog = rec["prog"]
    env = covworld.CovEnv(prog)
    cgdefs = {c["name"]: c for c in prog["cgs"]}
    clock = kernel.SimClock()
    insts = []
    types = {}          # (class, shape key) -> RefCg ; order of creation
    type_order = []
    stats = {"samples": 0, "struct_checks": 0, "cov_checks": 0, "reports": 0, "saves": 0,
             "readbacks": 0, "faults_fired": {}, "gated_samples": 0, "outside_samples": 0,
             "instances": 0, "types": 0, "second_shapes": 0, "cross_checks": 0, "miss_after_gate": 0,
             "fault_sites_total": 0, "fault_sites_enumerated": 0, "clock_jumps": 0,
             "at_least_items": 0, "weight_items": 0, "digest_checks": 0, "ignore_specs": 0}
    viol = []
    obs = []

    def rebaseline(it):
        for (ref, m) in ((it.ref, it.obj.get_model()), (types[it.tkey], it.obj.get_model().type_cg)):
            rm = covworld.read_model(m)
            for n in ref.cp_order:
                ref.cps[n].hits = list(rm["cps"][n]["hits"])
                ref.cps[n].ign_hits = list(rm["cps"][n]["ign"])
                ref.cps[n].ill_hits = list(rm["cps"][n]["ill"])
            for cr in ref.crosses:
                cr.hits = list(rm["crosses"][cr.name]["hits"])
        # other instances of the same type are unaffected; their sums stay consistent because the
        # type reference now equals the implementation's type counters

    def struct_all(where):
        for k, it in enumerate(insts):
            stats["struct_checks"] += 1
            if not cmp_struct(covworld.read_model(it.obj.get_model()), it.ref, "%s inst %d" % (where, k),
                              focus, viol):
                return False
            tm = it.obj.get_model().type_cg
            if tm is None:
                viol.append({"inv": "C12.type_sum", "cls": "C12.type_missing", "detail": {"inst": k}})
                return False
            stats["struct_checks"] += 1
            v0 = len(viol)
            if not cmp_struct(covworld.read_model(tm), types[it.tkey], "%s type of inst %d" % (where, k),
                              focus, viol):
                # the same counters are right per instance but wrong in the type: aggregation
                for v in viol[v0:]:
                    if v["inv"].startswith("C10.bin_hits") or v["inv"].startswith("C11.cross"):
                        v["inv"] = "C12.type_sum"
                        v["cls"] = "C12.type_sum/" + v["cls"]
                    elif v["inv"].startswith("C10.bin_layout") or v["inv"].startswith("C11.cross_layout"):
                        # the instance has the right bins, its type has others: wrong type split
                        v["inv"] = "C12.type_split"
                        v["cls"] = "C12.type_split/" + v["cls"]
                return False
        return True

    def coverage_all(where):
        try:
            return coverage_all_(where)
        except ZeroDivisionError as e:
            viol.append({"inv": "C12.coverage_value", "cls": "C12.coverage_value/ZeroDivisionError",
                         "detail": {"where": where, "msg": str(e),
                                    "bins": [[(n, len(c.bins)) for n, c in it.ref.cps.items()] for it in insts]}})
            return False

    def coverage_all_(where):
        for k, it in enumerate(insts):
            tref = types[it.tkey]
            m = it.obj.get_model()
            got_t = it.obj.get_coverage()
            got_i = it.obj.get_inst_coverage()
            stats["cov_checks"] += 2
            exp_t, exp_i = tref.coverage(), it.ref.coverage()
            for (nm, got, exp) in (("get_coverage", got_t, exp_t), ("get_inst_coverage", got_i, exp_i)):
                if not (0.0 <= got <= 100.0):
                    viol.append({"inv": "C12.coverage_range", "cls": "C12.coverage_range",
                                 "detail": {"where": where, "inst": k, "fn": nm, "value": got}})
                    return False
                if not close(got, exp):
                    viol.append({"inv": "C12.coverage_value", "cls": "C12.coverage_value/covergroup",
                                 "detail": {"where": where, "inst": k, "fn": nm, "value": got, "expected": exp,
                                            "ref": (tref if nm == "get_coverage" else it.ref).snapshot(),
                                            "options": [(c.name, c.at_least, c.weight) for c in
                                                        list(it.ref.cps.values()) + it.ref.crosses]}})
                    return False
            if it.last_cov is not None and got_t < it.last_cov - 1e-9:
                viol.append({"inv": "C12.coverage_monotone", "cls": "C12.coverage_monotone",
                             "detail": {"where": where, "inst": k, "before": it.last_cov, "after": got_t}})
                return False
            it.last_cov, it.last_inst_cov = got_t, got_i
            # coverpoint level (through the user-visible coverpoint objects)
            for n in it.ref.cp_order:
                cpo = getattr(it.obj, n)
                gi = cpo.get_inst_coverage()
                ei = it.ref.cps[n].coverage()
                stats["cov_checks"] += 1
                if ei is not None and not close(gi, ei):
                    viol.append({"inv": "C12.coverage_value", "cls": "C12.coverage_value/coverpoint",
                                 "detail": {"where": where, "inst": k, "cp": n, "value": gi, "expected": ei,
                                            "hits": it.ref.cps[n].hits, "at_least": it.ref.cps[n].at_least}})
                    return False
            for cr, crm in zip(it.ref.crosses, m.cross_l):
                gi = crm.get_coverage()
                ei = cr.coverage()
                stats["cov_checks"] += 1
                if ei is not None and not close(gi, ei):
                    viol.append({"inv": "C12.coverage_value", "cls": "C12.coverage_value/cross",
                                 "detail": {"where": where, "inst": k, "cross": cr.name, "value": gi,
                                            "expected": ei, "at_least": cr.at_least}})
                    return False
            all_cov = all(c.coverage() in (None, 100.0) for c in list(tref.cps.values()) + tref.crosses)
            if (got_t == 100.0) != all_cov and not close(got_t, 100.0 if all_cov else got_t):
                viol.append({"inv": "C12.coverage_value", "cls": "C12.coverage_value/hundred",
                             "detail": {"where": where, "inst": k, "value": got_t, "all_covered": all_cov}})
                return False
        return True

    def report_check(rep, where, percent=True):
        """report model vs memory"""
        # group live types in registry order
        # the types held in memory, from the live instances themselves (not through the
        # registry's own accessor): grouped by class in order of first creation, then by
        # type in order of first appearance
        mem_types = []
        by_cls = {}
        for it in insts:
            by_cls.setdefault(it.cls, [])
            t = it.obj.get_model().type_cg
            if not any(t is x for x in by_cls[it.cls]):
                by_cls[it.cls].append(t)
        for c in by_cls:
            mem_types.extend(by_cls[c])
        if len(rep.covergroups) != len(mem_types):
            viol.append({"inv": "C13.report_content", "cls": "C13.report_content/type_count",
                         "detail": {"where": where, "report": len(rep.covergroups), "memory": len(mem_types)}})
            return False
        for rt, mt in zip(rep.covergroups, mem_types):
            if not report_cg(rt, mt, where + " type " + str(mt.name), True, percent):
                return False
            if len(rt.covergroups) != len(mt.cg_inst_l):
                viol.append({"inv": "C13.report_content", "cls": "C13.report_content/instance_count",
                             "detail": {"where": where, "type": mt.name, "report": len(rt.covergroups),
                                        "memory": len(mt.cg_inst_l)}})
                return False
            for ri, mi in zip(rt.covergroups, mt.cg_inst_l):
                if not report_cg(ri, mi, where + " instance of " + str(mt.name), False, percent):
                    return False
        return True

    def report_cg(r, m, where, is_type, percent=True):
        mem = covworld.read_model(m)
        if [c.name for c in r.coverpoints] != mem["cp_order"] or [c.name for c in r.crosses] != mem["cross_order"]:
            viol.append({"inv": "C13.report_content", "cls": "C13.report_content/items",
                         "detail": {"where": where, "report": [c.name for c in r.coverpoints],
                                    "memory": mem["cp_order"]}})
            return False
        for c in r.coverpoints:
            mc = mem["cps"][c.name]
            got = [(b.name, b.count) for b in c.bins]
            exp = list(zip(mc["names"], mc["hits"]))
            gi = [(b.name, b.count) for b in c.ignore_bins]
            ei = list(zip(mc["ign_names"], mc["ign"]))
            gl = [(b.name, b.count) for b in c.illegal_bins]
            el = list(zip(mc["ill_names"], mc["ill"]))
            if got != exp or gi != ei or gl != el:
                viol.append({"inv": "C13.report_content", "cls": "C13.report_content/bins",
                             "detail": {"where": where, "cp": c.name, "report": [got, gi, gl][:3],
                                        "memory": [exp, ei, el]}})
                return False
            cpm = [x for x in m.coverpoint_l if x.name == c.name][0]
            if percent and not close(c.coverage, cpm.get_coverage()):
                viol.append({"inv": "C13.report_percent", "cls": "C13.report_percent/coverpoint",
                             "detail": {"where": where, "cp": c.name, "report": c.coverage,
                                        "get_coverage": cpm.get_coverage(), "hits": mc["hits"],
                                        "at_least": cpm.options.at_least}})
                return False
        for c in r.crosses:
            mc = mem["crosses"][c.name]
            got = [(b.name, b.count) for b in c.bins]
            exp = list(zip(mc["names"], mc["hits"]))
            if got != exp:
                viol.append({"inv": "C13.report_content", "cls": "C13.report_content/cross_bins",
                             "detail": {"where": where, "cross": c.name, "report": got[:8], "memory": exp[:8]}})
                return False
        mcov = m.get_inst_coverage() if not is_type else m.get_coverage()
        if any(cr.options.weight != 1 for cr in m.cross_l):
            # PyUCIS' CoverageReportBuilder.build_cross never reads the cross weight (third-party
            # rendering code): the covergroup-level percentage is not comparable then
            stats["pyucis_cross_weight_skipped"] = stats.get("pyucis_cross_weight_skipped", 0) + 1
        elif percent and not close(r.coverage, mcov):
            viol.append({"inv": "C13.report_percent", "cls": "C13.report_percent/covergroup",
                         "detail": {"where": where, "report": r.coverage, "memory": mcov, "is_type": is_type}})
            return False
        return True

    def readback(xml, where):
        from ucis.xml.xml_factory import XmlFactory
        from ucis.report.coverage_report_builder import CoverageReportBuilder
        stats["readbacks"] += 1
        try:
            db = XmlFactory.read(io.StringIO(xml))
            rep = CoverageReportBuilder.build(db)
        except Exception as e:
            viol.append({"inv": "C13.readback", "cls": "C13.readback/unreadable",
                         "detail": {"where": where, "exc": type(e).__name__, "msg": str(e)[:300]}})
            return False
        n0 = len(viol)
        # the XML carries names and counts; PyUCIS' reader recreates every bin with at_least 1,
        # so percentages are only compared for reports built from memory
        ok = report_check(rep, where + " (read back)", percent=False)
        for v in viol[n0:]:
            v["inv"] = "C13.readback"
            v["cls"] = "C13.readback/" + v["cls"]
        return ok

    def flatten_report(rep):
        out = []

        def cg(c, kind):
            out.append((kind, c.name if kind == "TYPE" else c.instname, "%.2f" % c.coverage))
            for cp in c.coverpoints:
                out.append(("CVP", cp.name, "%.2f" % cp.coverage))
                for b in cp.bins:
                    out.append(("BIN", b.name, str(b.count)))
            for cr in c.crosses:
                out.append(("CROSS", cr.name, "%.2f" % cr.coverage))
                for b in cr.bins:
                    out.append(("BIN", b.name, str(b.count)))
            for sub in c.covergroups:
                cg(sub, "INST")
        for t in rep.covergroups:
            cg(t, "TYPE")
        return out

    def text_check(txt, where, viol_, details=True):
        import re
        rep = vsc.get_coverage_report_model()
        exp = flatten_report(rep)
        got = []
        for line in txt.splitlines():
            m = re.match(r"^\s*(TYPE|INST|CVP|CROSS)\s+(.*?)\s*:\s*([0-9.]+)%\s*$", line)
            if m:
                got.append((m.group(1), m.group(2), "%.2f" % float(m.group(3))))
                continue
            m = re.match(r"^\s*(\S.*?)\s*:\s*(\d+)\s*$", line)
            if m and details:
                got.append(("BIN", m.group(1), m.group(2)))
        if not details:
            exp = [e for e in exp if e[0] != "BIN"]
        # ignore / illegal bins are listed by the text formatter too; keep regular ones to compare
        exp_set = [e for e in exp]
        got_f = [g for g in got if g in exp_set or g[0] != "BIN"]
        if [g for g in got_f if g[0] != "BIN"] != [e for e in exp if e[0] != "BIN"]:
            viol.append({"inv": "C13.report_content", "cls": "C13.report_content/text_items",
                         "detail": {"where": where, "text": [g for g in got if g[0] != "BIN"][:12],
                                    "model": [e for e in exp if e[0] != "BIN"][:12]}})
            return False
        if details:
            eb = [e for e in exp if e[0] == "BIN"]
            gb = [g for g in got if g[0] == "BIN"]
            missing = [e for e in eb if e not in gb]
            if missing:
                viol.append({"inv": "C13.report_content", "cls": "C13.report_content/text_bins",
                             "detail": {"where": where, "missing": missing[:8]}})
                return False
        return report_check(rep, where)

    import ucis
    import vsc as _v
    old_time = ucis.ucis_Time
    ucis.ucis_Time = clock.ucis_time
    _v.ucis.ucis_Time = clock.ucis_time
    last_vals = {}
    try:
        for oi, op in enumerate(rec["ops"]):
            k = op["op"]
            clock.tick()
            if k == "new_cg":
                cgd = cgdefs[op["cls"]]
                var = op.get("variant", 0) % len(cgd["variants"])
                try:
                    obj = env.classes[op["cls"]](var)
                except Exception as e:
                    import traceback
                    tb = traceback.extract_tb(e.__traceback__)
                    where = ""
                    for fr in reversed(tb):
                        if "/vsc/" in fr.filename:
                            where = "%s:%s" % (fr.filename.split("/vsc/")[-1], fr.name)
                            break
                    viol.append({"inv": "C10.bin_layout", "cls": "C10.exception/%s/%s" % (type(e).__name__, where),
                                 "detail": {"op": oi, "exc": type(e).__name__, "msg": str(e)[:200],
                                            "variant": cgd["variants"][var]}})
                    break
                # shape = resulting bins (value sets) under the names the instance reports
                rm = covworld.read_model(obj.get_model())
                tkey = (op["cls"], covworld.shape_key(cgd, var, prog.get("enums", [])),
                        kernel.digest([[n, rm["cps"][n]["names"]] for n in rm["cp_order"]]),
                        # how the bins were declared (single array vs collection of pieces) is
                        # left open by the property: follow the declared structure
                        kernel.digest([[type(b).__name__ for b in cp.bin_model_l] +
                                       [[type(x).__name__ for x in getattr(b, "bin_l", [])] for b in cp.bin_model_l]
                                       for cp in obj.get_model().coverpoint_l]))
                ref = covworld.RefCg(cgd, var, prog.get("enums", []))
                if tkey not in types:
                    types[tkey] = ref.clone_empty()
                    type_order.append(tkey)
                    stats["types"] += 1
                    if len([t for t in types if t[0] == op["cls"]]) > 1:
                        stats["second_shapes"] += 1
                insts.append(Inst(op["cls"], var, obj, ref, tkey))
                stats["instances"] += 1
                for c in list(ref.cps.values()) + ref.crosses:
                    if c.at_least > 1:
                        stats["at_least_items"] += 1
                    if c.weight != 1:
                        stats["weight_items"] += 1
                for c in ref.cps.values():
                    if c.ignore or c.illegal:
                        stats["ignore_specs"] += 1
                obs.append((oi, k, covworld.read_model(obj.get_model())["cp_order"]))
                if not struct_all("after construction %d" % oi):
                    break
            elif k == "sample":
                if op["i"] >= len(insts):
                    continue
                it = insts[op["i"]]
                cgd = cgdefs[it.cls]
                vals = op["vals"]
                if op.get("fault"):
                    # a user callable (coverpoint target / iff) raises during this sample
                    env.raise_in = op["fault"]
                    try:
                        env.sample(cgd, it.obj, vals)
                        raised = False
                    except covworld.CovFault:
                        raised = True
                    env.raise_in = None
                    if raised:
                        stats["faults_fired"]["cb_raise"] = stats["faults_fired"].get("cb_raise", 0) + 1
                        # what the aborted sample counted is unspecified: re-baseline the reference
                        # from the implementation; every later sample must again count exactly
                        rebaseline(it)
                        obs.append((oi, "sample_fault"))
                        continue
                    obs.append((oi, "sample_fault_not_reached"))
                else:
                    env.sample(cgd, it.obj, vals)
                before = it.ref.snapshot()
                it.ref.sample(vals)
                # type data = bin-wise sum of the hits of its instances (instances of one
                # shape may differ in iff / options)
                after = it.ref.snapshot()
                tref = types[it.tkey]
                for n in tref.cp_order:
                    for key, arr in (("hits", tref.cps[n].hits), ("ign", tref.cps[n].ign_hits),
                                     ("ill", tref.cps[n].ill_hits)):
                        for j in range(len(arr)):
                            arr[j] += after["cps"][n][key][j] - before["cps"][n][key][j]
                for cr in tref.crosses:
                    for j in range(len(cr.hits)):
                        cr.hits[j] += after["crosses"][cr.name][j] - before["crosses"][cr.name][j]
                stats["samples"] += 1
                if any(s.get("gate") and not vals[s["n"]] for s in cgd["samples"]):
                    stats["gated_samples"] += 1
                prev = last_vals.get(op["i"])
                if prev is not None and any(s.get("gate") and not prev[s["n"]] for s in cgd["samples"]) \
                        and not any(s.get("gate") and not vals[s["n"]] for s in cgd["samples"]):
                    stats["miss_after_gate"] += 1
                last_vals[op["i"]] = vals
                if it.ref.crosses:
                    stats["cross_checks"] += 1
                obs.append((oi, k, it.ref.snapshot()))
                if not struct_all("after sample %d" % oi):
                    break
                if focus in ("C12", "C13") and not coverage_all("after sample %d" % oi):
                    break
            elif k == "query":
                # coverage queries between samples (no judgement here: they are the perturbation)
                if op["i"] < len(insts):
                    it = insts[op["i"]]
                    it.obj.get_coverage()
                    it.obj.get_inst_coverage()
                    for n in it.ref.cp_order:
                        getattr(it.obj, n).get_coverage()
                    stats["queries"] = stats.get("queries", 0) + 1
            elif k == "get_cov":
                if not coverage_all("op %d" % oi):
                    break
            elif k == "clock":
                clock.jump(op["dt"])
                clock.freeze(op.get("freeze", False))
                stats["clock_jumps"] += 1
            elif k == "report":
                if not insts:
                    continue
                d0 = covworld.full_digest()
                stats["reports"] += 1
                if op["kind"] == "model":
                    rep = vsc.get_coverage_report_model()
                    if not report_check(rep, "report model op %d" % oi):
                        break
                elif op["kind"] == "text":
                    txt = vsc.get_coverage_report(details=True)
                    if not text_check(txt, "text op %d" % oi, viol):
                        break
                else:
                    f = kernel.SimFile()
                    vsc.report_coverage(f, details=op.get("details", True))
                    if not text_check(f.getvalue(), "stream op %d" % oi, viol, op.get("details", True)):
                        break
                stats["digest_checks"] += 1
                if covworld.full_digest() != d0:
                    viol.append({"inv": "C13.state_changed", "cls": "C13.state_changed/report_" + op["kind"],
                                 "detail": {"op": oi}})
                    break
                if not struct_all("after report %d" % oi):
                    break
            elif k == "save":
                if not insts:
                    continue
                d0 = covworld.full_digest()
                stats["saves"] += 1
                # fault-free save first, to learn the size (fault sites = character offsets)
                f0 = kernel.SimFile()
                vsc.write_coverage_db(f0)
                good = f0.getvalue()
                stats["fault_sites_total"] += len(good) + 2
                if covworld.full_digest() != d0:
                    viol.append({"inv": "C13.state_changed", "cls": "C13.state_changed/save",
                                 "detail": {"op": oi}})
                    break
                if not readback(good, "save op %d" % oi):
                    break
                # enumerate I/O fault sites of this save
                sites = fault_sites(len(good), op.get("n_sites", 6), op.get("site_seed", 0))
                for fs in sites:
                    ff = kernel.SimFile(fault=fs)
                    stats["fault_sites_enumerated"] += 1
                    raised = None
                    try:
                        vsc.write_coverage_db(ff)
                        try:
                            ff.close()
                        except OSError as e:
                            raised = e
                    except OSError as e:
                        raised = e
                    except Exception as e:
                        viol.append({"inv": "C13.after_io_fault", "cls": "C13.after_io_fault/foreign_exception",
                                     "detail": {"op": oi, "fault": fs, "exc": type(e).__name__, "msg": str(e)[:200]}})
                        break
                    for kind in ff.fired:
                        stats["faults_fired"][kind] = stats["faults_fired"].get(kind, 0) + 1
                    stats["digest_checks"] += 1
                    if covworld.full_digest() != d0:
                        viol.append({"inv": "C13.after_io_fault", "cls": "C13.after_io_fault/state_changed",
                                     "detail": {"op": oi, "fault": fs}})
                        break
                    if "fail_after" in fs and raised is None and len(good) > fs["fail_after"]:
                        viol.append({"inv": "C13.after_io_fault", "cls": "C13.after_io_fault/error_swallowed",
                                     "detail": {"op": oi, "fault": fs}})
                        break
                if viol:
                    break
                # after the faults: a later fault-free save is complete and equal (clock jumped meanwhile)
                clock.jump(op.get("dt", 86400.0))
                f2 = kernel.SimFile()
                vsc.write_coverage_db(f2)
                if strip_times(f2.getvalue()) != strip_times(good):
                    viol.append({"inv": "C13.after_io_fault", "cls": "C13.after_io_fault/later_save_differs",
                                 "detail": {"op": oi}})
                    break
                if not struct_all("after save %d" % oi):
                    break
    finally:
        ucis.ucis_Time = old_time
        _v.ucis.ucis_Time = old_time
    return viol, stats, obs, clock


def fault_sites(n, k, seed):
    rng = _r.Random(seed)
    sites = [{"fail_after": 0}, {"fail_after": 1}, {"fail_after": n // 2}, {"fail_after": max(0, n - 1)},
             {"fail_close": True}, {"torn_after": n // 3}]
    for _ in range(max(0, k - len(sites))):
        sites.append({"fail_after": rng.randint(0, max(0, n - 1))})
    return sites[:max(k, 1)] if k < len(sites) else sites


def strip_times(xml):
    import re
    xml = re.sub(r'writtenTime="[^"]*"', 'writtenTime=""', xml)
    xml = re.sub(r' date="[^"]*"', ' date=""', xml)
    return xml



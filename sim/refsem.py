"""Reference semantics for generated constraint programs.

Independent of vsc.model.*: no pyvsc import.  Programs, class definitions,
expressions and statements are plain JSON-able dicts (see progs.py for the
vocabulary).  The evaluator implements the per-node width/sign rule of
DESIGN.md section 3.1.

Value trees: an object's state is a dict {field name: value}; scalar -> int,
enum -> int (the enumerator's integer value), scalar/enum list -> [int],
object -> dict, object list -> [dict].
"""
import itertools

REL = ("==", "!=", "<", "<=", ">", ">=")
ARITH = ("+", "-", "*", "/", "%", "&", "|", "^", "<<", ">>")


def mask(w):
    return (1 << w) - 1


def to_signed(u, w):
    u &= mask(w)
    return u - (1 << w) if u >> (w - 1) else u


def in_type(v, w, s):
    if s:
        return -(1 << (w - 1)) <= v <= (1 << (w - 1)) - 1
    return 0 <= v <= mask(w)


def type_domain(w, s):
    if s:
        return range(-(1 << (w - 1)), 1 << (w - 1))
    return range(0, 1 << w)


class RefError(Exception):
    """The reference cannot (or refuses to) judge this point (ambiguous)."""


# ---------------------------------------------------------------------------
# program / class helpers
# ---------------------------------------------------------------------------
class Prog(object):
    def __init__(self, prog):
        self.prog = prog
        self.classes = {c["name"]: c for c in prog.get("classes", [])}
        self.enums = {e["name"]: e for e in prog.get("enums", [])}

    def cls(self, name):
        return self.classes[name]

    def mro(self, name):
        """class defs from base-most to most-derived"""
        out = []
        c = self.classes[name]
        while c is not None:
            out.insert(0, c)
            c = self.classes[c["base"]] if c.get("base") else None
        return out

    def fields(self, name):
        out = []
        seen = {}
        for c in self.mro(name):
            for f in c.get("fields", []):
                if f["n"] in seen:
                    out[seen[f["n"]]] = f
                else:
                    seen[f["n"]] = len(out)
                    out.append(f)
        return out

    def field(self, cname, fname):
        for f in self.fields(cname):
            if f["n"] == fname:
                return f
        raise KeyError("%s.%s" % (cname, fname))

    def blocks(self, name, dynamic=False):
        """most-derived block per name, in first-declaration order"""
        out = []
        seen = {}
        for c in self.mro(name):
            for b in c.get("blocks", []):
                if bool(b.get("dyn")) != dynamic:
                    continue
                if b["n"] in seen:
                    out[seen[b["n"]]] = b
                else:
                    seen[b["n"]] = len(out)
                    out.append(b)
        return out

    def enum_values(self, ename):
        return [v for (_, v) in self.enums[ename]["items"]]

    def enum_value(self, ename, item):
        for (n, v) in self.enums[ename]["items"]:
            if n == item:
                return v
        raise KeyError(item)

    def enum_item(self, ename, value):
        for (n, v) in self.enums[ename]["items"]:
            if v == value:
                return n
        raise KeyError(value)

    # -- typing of a path starting at class cname
    def path_type(self, cname, path):
        """returns field def reached by path and, for element access, 'elem' flag"""
        cur = cname
        f = None
        elem = False
        i = 0
        while i < len(path):
            p = path[i]
            if isinstance(p, int) or (isinstance(p, dict)):
                elem = True
                i += 1
                continue
            f = self.field(cur, p)
            elem = False
            if f["k"] in ("o", "lo"):
                cur = f["c"]
            i += 1
        return f, elem


def scalar_type(prog, fdef):
    """(width, signed) of a scalar-valued field def (or list element)"""
    if fdef["k"] in ("e", "le"):
        return 32, True
    return fdef["w"], bool(fdef["s"])


def field_domain(prog, fdef):
    if fdef["k"] in ("e", "le"):
        return list(prog.enum_values(fdef["en"]))
    return type_domain(fdef["w"], bool(fdef["s"]))


# ---------------------------------------------------------------------------
# evaluation context
# ---------------------------------------------------------------------------
class Cx(object):
    """Evaluation context: program, class of the root object, its value tree,
    foreach loop stack, mutable rangelists, enabled dynamic blocks."""

    def __init__(self, prog, cname, tree, rangelists=None):
        self.prog = prog if isinstance(prog, Prog) else Prog(prog)
        self.cname = cname
        self.tree = tree
        self.loops = []          # list of (list path(resolved), index)
        self.rangelists = rangelists or {}
        self.base = []           # path prefix (for sub-object blocks)
        self.base_cls = cname

    def sub(self, path, cname):
        c = Cx(self.prog, self.cname, self.tree, self.rangelists)
        c.base = list(path)
        c.base_cls = cname
        c.loops = []
        return c

    def resolve(self, path):
        """replace loop-variable markers in a path by concrete ints; prefix base"""
        out = list(self.base)
        for p in path:
            if isinstance(p, dict):
                out.append(self.loop_index(p.get("d", 0)) + p.get("o", 0))
            else:
                out.append(p)
        return out

    def loop_index(self, depth=0):
        return self.loops[-1 - depth][1]

    def value(self, rpath):
        cur = self.tree
        for p in rpath:
            if isinstance(p, int):
                if p < 0 or p >= len(cur):
                    raise RefError("index out of range")
            cur = cur[p]
        return cur

    def ftype(self, rpath):
        """field def for a resolved path (relative to root class)"""
        cur = self.cname
        f = None
        for p in rpath:
            if isinstance(p, int):
                continue
            f = self.prog.field(cur, p)
            if f["k"] in ("o", "lo"):
                cur = f["c"]
        return f


# ---------------------------------------------------------------------------
# static typing (width, signed) mirroring the documented rule
# ---------------------------------------------------------------------------
def _gdef(cx, name):
    for g_ in cx.prog.prog.get("globals", []):
        if g_["n"] == name:
            return g_
    raise RefError("unknown stand-alone field " + name)


def swidth(e, cx):
    t = e["t"]
    if t == "g":
        return _gdef(cx, e["n"])["w"]
    if t == "f":
        f = cx.ftype(cx.resolve(e["p"]))
        return scalar_type(cx.prog, f)[0]
    if t in ("lit", "en"):
        return 32
    if t in ("slit", "ulit"):
        return e.get("w", 32)
    if t == "idx":
        return 32
    if t == "bin":
        if e["op"] in REL:
            return 1
        return max(swidth(e["l"], cx), swidth(e["r"], cx))
    if t == "not":
        return swidth(e["e"], cx)
    if t in ("in", "inrl", "inlist", "dynref"):
        return 1
    if t == "ps":
        if "bit_f" in e:
            return 1
        return e["hi"] - e["lo"] + 1
    if t == "size":
        return 32
    if t == "sum":
        f = cx.ftype(cx.resolve(e["p"]))
        n = len(cx.value(cx.resolve(e["p"])))
        return sum_width(scalar_type(cx.prog, f)[0], n)
    if t == "product":
        return 64
    raise RefError("swidth: unknown node %s" % t)


def sum_width(elem_w, n):
    # the library widens so that the sum "cannot overflow"; the reference uses
    # the exact integer sum and only needs a width large enough for that
    w = elem_w
    k = 1
    while k < max(n, 1):
        k <<= 1
        w += 1
    return w


def ssigned(e, cx):
    t = e["t"]
    if t == "g":
        return bool(_gdef(cx, e["n"])["s"])
    if t == "f":
        f = cx.ftype(cx.resolve(e["p"]))
        return scalar_type(cx.prog, f)[1]
    if t in ("lit", "en", "slit", "idx"):
        # (the foreach index is an int, as in SystemVerilog: 'it <= i - 3' compares signed
        # when the element is signed)
        return True
    if t in ("ulit", "ps", "in", "inrl", "inlist", "dynref"):
        return False
    if t == "bin":
        return ssigned(e["l"], cx) and ssigned(e["r"], cx)
    if t == "not":
        return ssigned(e["e"], cx)
    if t == "size":
        return False
    if t in ("sum", "product"):
        f = cx.ftype(cx.resolve(e["p"]))
        return scalar_type(cx.prog, f)[1]
    raise RefError("ssigned: unknown node %s" % t)


def _ext(u, w, to, signed):
    if to <= w:
        return u
    if signed and (u >> (w - 1)) & 1:
        return u | (mask(to) ^ mask(w))
    return u


def ev(e, cx, ctx=-1):
    """returns (unsigned bit pattern, width, signed)"""
    t = e["t"]
    if t == "g":
        # stand-alone field: its current value travels in the root tree under "$g"
        g_ = _gdef(cx, e["n"])
        try:
            v = cx.tree["$g"][e["n"]]
        except (KeyError, TypeError):
            raise RefError("no value for stand-alone field " + e["n"])
        return (v & mask(g_["w"]), g_["w"], bool(g_["s"]))
    if t == "f":
        rp = cx.resolve(e["p"])
        f = cx.ftype(rp)
        w, s = scalar_type(cx.prog, f)
        v = cx.value(rp)
        return (v & mask(w), w, s)
    if t in ("lit", "slit", "ulit", "en"):
        if t == "en":
            v = cx.prog.enum_value(e["en"], e["item"])
            w0, s = 32, True
        elif t == "lit":
            v, w0, s = e["v"], 32, True
        else:
            v, w0, s = e["v"], e.get("w", 32), (t == "slit")
        w = max(w0, ctx)
        return (v & mask(w), w, s)
    if t == "idx":
        v = cx.loop_index(e.get("d", 0))
        return (v & mask(32), 32, True)
    if t == "size":
        v = len(cx.value(cx.resolve(e["p"])))
        return (v & mask(32), 32, False)
    if t == "bin":
        return ev_bin(e["op"], e["l"], e["r"], cx, ctx)
    if t == "not":
        c = max(ctx, swidth(e["e"], cx))
        (u, w, s) = ev(e["e"], cx, c)
        return ((~u) & mask(w), w, s)
    if t == "in":
        return (1 if ev_in(e["e"], e["rl"], cx) else 0, 1, False)
    if t == "inrl":
        return (1 if ev_in(e["e"], cx.rangelists[e["name"]], cx) else 0, 1, False)
    if t == "inlist":
        rp = cx.resolve(e["p"])
        vals = cx.value(rp)
        if len(vals) == 0:
            # library: empty disjunction is treated as 'true'
            raise RefError("membership in an empty list")
        items = [{"t": "f", "p": _unbase(cx, rp) + [i]} for i in range(len(vals))]
        ok = False
        for it in items:
            (u, _, _) = ev_bin("==", e["e"], it, cx, -1)
            ok = ok or bool(u)
        return (1 if ok else 0, 1, False)
    if t == "ps":
        rp = cx.resolve(e["p"])
        f = cx.ftype(rp)
        w, s = scalar_type(cx.prog, f)
        v = cx.value(rp) & mask(w)
        if "bit_f" in e:
            # bit-select whose index is the current value of a (non-random) field
            b = cx.value(cx.resolve(e["bit_f"]))
            if b < 0 or b >= w:
                raise RefError("bit index outside the field")
            return ((v >> b) & 1, 1, False)
        n = e["hi"] - e["lo"] + 1
        return ((v >> e["lo"]) & mask(n), n, False)
    if t == "sum":
        rp = cx.resolve(e["p"])
        vals = cx.value(rp)
        f = cx.ftype(rp)
        w, s = scalar_type(cx.prog, f)
        total = sum(vals)
        sw = max(sum_width(w, len(vals)), ctx)
        if not s and total < 0:
            raise RefError("negative unsigned sum")
        return (total & mask(sw), sw, s)
    if t == "product":
        rp = cx.resolve(e["p"])
        vals = cx.value(rp)
        f = cx.ftype(rp)
        w, s = scalar_type(cx.prog, f)
        p = 1
        for v in vals:
            p *= v
        if len(vals) == 0:
            raise RefError("product of empty list")
        sw = max(64, ctx)
        return (p & mask(sw), sw, s)
    if t == "dynref":
        ok = dyn_holds(e, cx)
        return (1 if ok else 0, 1, False)
    raise RefError("ev: unknown node %s" % t)


def _unbase(cx, rp):
    return rp[len(cx.base):]


def ev_bin(op, l, r, cx, ctx=-1):
    lw = swidth(l, cx)
    rw = swidth(r, cx)
    c = max(ctx, lw, rw)
    (lu, lwid, _) = ev(l, cx, c)
    (ru, rwid, _) = ev(r, cx, c)
    sg = ssigned(l, cx) and ssigned(r, cx)
    lu = _ext(lu, lwid, c, sg)
    ru = _ext(ru, rwid, c, sg)
    if op in REL:
        if sg:
            a, b = to_signed(lu, c), to_signed(ru, c)
        else:
            a, b = lu, ru
        res = {"==": a == b, "!=": a != b, "<": a < b, "<=": a <= b,
               ">": a > b, ">=": a >= b}[op]
        return (1 if res else 0, 1, sg)
    if op == "+":
        res = lu + ru
    elif op == "-":
        res = lu - ru
    elif op == "*":
        res = lu * ru
    elif op == "/":
        if ru == 0:
            raise RefError("division by zero")
        if sg and ((lu >> (c - 1)) or (ru >> (c - 1))):
            raise RefError("signed division of negative operand")
        res = lu // ru
    elif op == "%":
        if ru == 0:
            raise RefError("modulo by zero")
        if sg and ((lu >> (c - 1)) or (ru >> (c - 1))):
            raise RefError("signed modulo of negative operand")
        res = lu % ru
    elif op == "&":
        res = lu & ru
    elif op == "|":
        res = lu | ru
    elif op == "^":
        res = lu ^ ru
    elif op == "<<":
        res = 0 if ru >= c else (lu << ru)
    elif op == ">>":
        res = 0 if ru >= c else (lu >> ru)
    else:
        raise RefError("unknown op " + op)
    return (res & mask(c), c, sg)


def ev_in(e, rl, cx):
    if len(rl) == 0:
        # the library treats membership in an empty (cleared) rangelist as 'no restriction';
        # set theory says 'false': left open, never judged
        raise RefError("membership in an empty rangelist")
    for item in rl:
        if isinstance(item, (list, tuple)):
            lo = item[0] if isinstance(item[0], dict) else {"t": "lit", "v": item[0]}
            hi = item[1] if isinstance(item[1], dict) else {"t": "lit", "v": item[1]}
            (a, _, _) = ev_bin(">=", e, lo, cx)
            (b, _, _) = ev_bin("<=", e, hi, cx)
            if a and b:
                return True
        else:
            it = item if isinstance(item, dict) else {"t": "lit", "v": item}
            (a, _, _) = ev_bin("==", e, it, cx)
            if a:
                return True
    return False


def truth(e, cx):
    (u, _, _) = ev(e, cx)
    return u != 0


# ---------------------------------------------------------------------------
# statements
# ---------------------------------------------------------------------------
def stmts_hold(stmts, cx):
    for s in stmts:
        if not stmt_holds(s, cx):
            return False
    return True


def first_failing(stmts, cx):
    for i, s in enumerate(stmts):
        if not stmt_holds(s, cx):
            return i
    return None


def stmt_holds(s, cx):
    t = s["t"]
    if t == "expr":
        return truth(s["e"], cx)
    if t == "if":
        if truth(s["c"], cx):
            return stmts_hold(s["then"], cx)
        for (c, body) in s.get("elifs", []):
            if truth(c, cx):
                return stmts_hold(body, cx)
        if s.get("else") is not None:
            return stmts_hold(s["else"], cx)
        return True
    if t == "implies":
        if truth(s["c"], cx):
            return stmts_hold(s["body"], cx)
        return True
    if t in ("soft", "solve_order"):
        return True
    if t == "unique":
        items = []
        for a in s["args"]:
            if a["t"] == "flist":
                rp = cx.resolve(a["p"])
                for i in range(len(cx.value(rp))):
                    items.append({"t": "f", "p": _unbase(cx, rp) + [i]})
            else:
                items.append(a)
        for i in range(len(items)):
            for j in range(i + 1, len(items)):
                (u, _, _) = ev_bin("!=", items[i], items[j], cx)
                if not u:
                    return False
        return True
    if t == "unique_vec":
        vecs = [tuple(cx.value(cx.resolve(a["p"]))) for a in s["args"]]
        n = len(vecs[0])
        for v in vecs:
            if len(v) != n:
                raise RefError("unique_vec over lists of different length")
        return len(set(vecs)) == len(vecs)
    if t == "foreach":
        rp = cx.resolve(s["p"])
        n = len(cx.value(rp))
        for i in range(n):
            cx.loops.append((rp, i))
            try:
                ok = stmts_hold(s["body"], cx)
            finally:
                cx.loops.pop()
            if not ok:
                return False
        return True
    if t == "dist":
        (u, w, sg) = ev(s["e"], cx)
        v = to_signed(u, w) if sg else u
        return dist_support_contains(s, v, cx)
    raise RefError("stmt_holds: unknown stmt %s" % t)


def weight_value(wd, cx):
    if isinstance(wd, dict):
        (u, w, sg) = ev(wd, cx)
        return to_signed(u, w) if sg else u
    return wd


def dist_support_contains(s, v, cx):
    """listed with a non-zero weight and not named by any zero-weight entry"""
    hit = False
    for ent in s["w"]:
        val = ent["v"]
        inside = (val[0] <= v <= val[1]) if isinstance(val, (list, tuple)) else (v == val)
        if not inside:
            continue
        if weight_value(ent["w"], cx) <= 0:
            return False
        hit = True
    return hit


def dyn_holds(e, cx):
    """dynamic-constraint reference through optional object path"""
    base = cx.resolve(e.get("p", []))
    cname = cx.base_cls
    if e.get("p"):
        f = cx.ftype(base)
        cname = f["c"]
    blk = None
    for b in cx.prog.blocks(cname, dynamic=True):
        if b["n"] == e["n"]:
            blk = b
    if blk is None:
        raise RefError("no dynamic block " + e["n"])
    sub = cx.sub(base, cname)
    return stmts_hold(blk["stmts"], sub)


# ---------------------------------------------------------------------------
# object-level: which constraints apply, which fields are random
# ---------------------------------------------------------------------------
def active_block_sets(prog, cname, tree, modes=None, base=None, top=True,
                      is_rand=True, out=None):
    """list of (base path, class name, block def) for the object at `base`
    and every random sub-object / object-list element, honouring
    constraint_mode (modes: {path-string: {block: bool}})."""
    prog = prog if isinstance(prog, Prog) else Prog(prog)
    if out is None:
        out = []
    base = base or []
    key = path_key(base)
    m = (modes or {}).get(key, {})
    for b in prog.blocks(cname):
        if m.get(b["n"], True):
            out.append((list(base), cname, b))
    for f in prog.fields(cname):
        if f["k"] == "o" and f.get("r"):
            active_block_sets(prog, f["c"], tree, modes, base + [f["n"]],
                              False, True, out)
        elif f["k"] == "lo" and f.get("r"):
            sub = _walk(tree, base + [f["n"]])
            for i in range(len(sub)):
                active_block_sets(prog, f["c"], tree, modes,
                                  base + [f["n"], i], False, True, out)
    return out


def path_key(p):
    return ".".join(str(x) for x in p)


def _walk(tree, path):
    cur = tree
    for p in path:
        cur = cur[p]
    return cur


def check_tree(prog, cname, tree, modes=None, rangelists=None, inline=None):
    """None if every enabled hard constraint holds on the value tree, else a
    description of the first failing (base, block, stmt index)."""
    prog = prog if isinstance(prog, Prog) else Prog(prog)
    root = Cx(prog, cname, tree, rangelists)
    for (base, cn, b) in active_block_sets(prog, cname, tree, modes):
        cx = root.sub(base, cn)
        i = first_failing(b["stmts"], cx)
        if i is not None:
            return {"base": base, "block": b["n"], "stmt": i}
    if inline:
        i = first_failing(inline, root)
        if i is not None:
            return {"base": [], "block": "<inline>", "stmt": i}
    return None


def rand_scalar_paths(prog, cname, tree, rand_off=None, base=None, out=None,
                      top=True):
    """paths of scalar-valued fields (incl. list elements) that are random in
    a randomize() call on the root object.  rand_off: set of path keys whose
    rand_mode was switched off."""
    prog = prog if isinstance(prog, Prog) else Prog(prog)
    if out is None:
        out = []
    base = base or []
    for f in prog.fields(cname):
        p = base + [f["n"]]
        if f["k"] in ("s", "e"):
            if f.get("r") and path_key(p) not in (rand_off or ()):
                out.append(p)
        elif f["k"] in ("l", "le"):
            if f.get("r"):
                for i in range(len(_walk(tree, p))):
                    out.append(p + [i])
        elif f["k"] == "o":
            if f.get("r"):
                rand_scalar_paths(prog, f["c"], tree, rand_off, p, out, False)
        elif f["k"] == "lo":
            if f.get("r"):
                for i in range(len(_walk(tree, p))):
                    rand_scalar_paths(prog, f["c"], tree, rand_off, p + [i],
                                      out, False)
    return out


def all_scalar_paths(prog, cname, tree, base=None, out=None):
    prog = prog if isinstance(prog, Prog) else Prog(prog)
    if out is None:
        out = []
    base = base or []
    for f in prog.fields(cname):
        p = base + [f["n"]]
        if f["k"] in ("s", "e"):
            out.append(p)
        elif f["k"] in ("l", "le"):
            for i in range(len(_walk(tree, p))):
                out.append(p + [i])
        elif f["k"] == "o":
            all_scalar_paths(prog, f["c"], tree, p, out)
        elif f["k"] == "lo":
            for i in range(len(_walk(tree, p))):
                all_scalar_paths(prog, f["c"], tree, p + [i], out)
    return out


def path_domain(prog, cname, path):
    prog = prog if isinstance(prog, Prog) else Prog(prog)
    cx = Cx(prog, cname, None)
    f = cx.ftype(path)
    return field_domain(prog, f)


def set_path(tree, path, v):
    cur = tree
    for p in path[:-1]:
        cur = cur[p]
    cur[path[-1]] = v


def copy_tree(t):
    if isinstance(t, dict):
        return {k: copy_tree(v) for k, v in t.items()}
    if isinstance(t, list):
        return [copy_tree(v) for v in t]
    return t


def init_tree(prog, cname, sizes=None):
    """value tree of a freshly constructed object (declared initial values, declared list
    sizes); sizes: optional callable(fdef) -> length for random-size lists"""
    prog = prog if isinstance(prog, Prog) else Prog(prog)
    out = {}
    for f in prog.fields(cname):
        k = f["k"]
        if k == "s":
            v = f.get("i") or 0
            out[f["n"]] = to_signed(v & mask(f["w"]), f["w"]) if f["s"] else v & mask(f["w"])
        elif k == "e":
            out[f["n"]] = sorted(prog.enum_values(f["en"]))[0]
        elif k in ("l", "le"):
            n = f.get("sz", 0)
            if f.get("rsz") and sizes is not None:
                n = sizes(f)
            z = 0 if k == "l" else sorted(prog.enum_values(f["en"]))[0]
            out[f["n"]] = [z] * n
        elif k == "o":
            out[f["n"]] = init_tree(prog, f["c"], sizes)
        elif k == "lo":
            out[f["n"]] = [init_tree(prog, f["c"], sizes) for _ in range(f.get("sz", 0))]
    return out


def class_rangelists(prog, cname):
    prog = prog if isinstance(prog, Prog) else Prog(prog)
    out = {}
    for c in prog.mro(cname):
        for rl in c.get("rls", []):
            out[rl["n"]] = [list(x) if isinstance(x, (list, tuple)) else x for x in rl["items"]]
    return out


def sample_sat(prog, cname, rng, tries=200):
    """True if one of `tries` random assignments of the random scalars of a freshly
    constructed object satisfies every class constraint (generation-time filter only:
    it decides nothing about the library)."""
    prog = prog if isinstance(prog, Prog) else Prog(prog)
    rls = class_rangelists(prog, cname)
    for _ in range(tries):
        try:
            t = init_tree(prog, cname, sizes=lambda f: rng.randint(0, 4))
            for q in rand_scalar_paths(prog, cname, t):
                d = path_domain(prog, cname, q)
                set_path(t, q, d[rng.randrange(len(d))])
            if check_tree(prog, cname, t, None, rls) is None:
                return True
        except RefError:
            continue
    return False


def sample_witness(prog, cname, tree, rng, rand_off=None, modes=None, rangelists=None,
                   inline=None, tries=400, max_size=6, sizes=None):
    """searches, by random sampling from the given pre-call value tree, for an assignment of
    the random scalars (and of the lengths and contents of top-level random-size lists) that
    satisfies every enforced constraint.  Returns the witness tree or None (None decides
    nothing).  One-sided oracle for programs too large to enumerate."""
    prog = prog if isinstance(prog, Prog) else Prog(prog)
    rsz = [f for f in prog.fields(cname) if f["k"] == "l" and f.get("rsz")]
    for _ in range(tries):
        try:
            t = copy_tree(tree)
            for f in rsz:
                t[f["n"]] = [0] * (sizes[f["n"]] if sizes and f["n"] in sizes else rng.randint(0, max_size))
            for q in rand_scalar_paths(prog, cname, t, rand_off):
                d = path_domain(prog, cname, q)
                set_path(t, q, d[rng.randrange(len(d))])
            if check_tree(prog, cname, t, modes, rangelists, inline) is None:
                return t
        except RefError:
            continue
    return None


def domain_size(prog, cname, paths):
    n = 1
    for p in paths:
        n *= len(path_domain(prog, cname, p))
    return n


def enumerate_solutions(prog, cname, tree, rpaths, modes=None, rangelists=None,
                        inline=None, limit=1 << 16):
    """all assignments (tuples, in rpaths order) of the random scalar paths
    that satisfy the enabled hard constraints; other fields keep tree values.
    Points the reference cannot judge raise RefError."""
    prog = prog if isinstance(prog, Prog) else Prog(prog)
    doms = [list(path_domain(prog, cname, p)) for p in rpaths]
    n = 1
    for d in doms:
        n *= len(d)
    if n > limit:
        raise RefError("domain too large: %d" % n)
    t = copy_tree(tree)
    sols = []
    for combo in itertools.product(*doms):
        for p, v in zip(rpaths, combo):
            set_path(t, p, v)
        if check_tree(prog, cname, t, modes, rangelists, inline) is None:
            sols.append(combo)
    return sols

"""Turns program ASTs (see progs.py) into real @vsc.randobj classes through the
public DSL only, and reads / writes object state through the public API.

Builder discipline (DESIGN section 2): operands come into existence left to
right, a left-hand Python literal is wrapped with vsc.signed()/unsigned()
before the right operand is evaluated, and no expression is created that is
not consumed.
"""
import enum

import vsc

from . import refsem


class Fault(Exception):
    """Exception raised by generated user code when a fault site is armed."""


class Env(object):
    """Per-run build environment: program, built classes, callback sink."""

    def __init__(self, prog, world=None, tag=""):
        self.prog = prog if isinstance(prog, refsem.Prog) else refsem.Prog(prog)
        self.world = world
        self.tag = tag
        self.enums = {}
        self.classes = {}
        self.globals = {}        # stand-alone vsc fields referenced by {"t": "g"} (set by the check)
        for e in self.prog.prog.get("enums", []):
            self.enums[e["name"]] = enum.IntEnum(e["name"] + tag,
                                                 [(n, v) for (n, v) in e["items"]])
        for c in self.prog.prog.get("classes", []):
            self.classes[c["name"]] = self._make_class(c)

    # -- hooks towards the world (fault sites, callbacks)
    def site(self, kind, **info):
        if self.world is not None:
            self.world.site(kind, **info)

    def callback(self, obj, phase, cname):
        if self.world is not None:
            self.world.callback(obj, phase, cname)

    # ------------------------------------------------------------------
    def _make_field(self, f, cname):
        k = f["k"]
        if k == "s":
            if f["s"]:
                t = vsc.rand_int_t(f["w"], i=f.get("i", 0)) if f.get("r") \
                    else vsc.int_t(f["w"], i=f.get("i", 0))
            else:
                t = vsc.rand_bit_t(f["w"], i=f.get("i", 0)) if f.get("r") \
                    else vsc.bit_t(f["w"], i=f.get("i", 0))
            return t
        if k == "e":
            E = self.enums[f["en"]]
            return vsc.rand_enum_t(E) if f.get("r") else vsc.enum_t(E)
        if k == "l":
            et = vsc.int_t(f["w"]) if f["s"] else vsc.bit_t(f["w"])
            if f.get("rsz"):
                return vsc.randsz_list_t(et)
            if f.get("r"):
                return vsc.rand_list_t(et, sz=f.get("sz", 0))
            return vsc.list_t(et, sz=f.get("sz", 0))
        if k == "le":
            et = vsc.enum_t(self.enums[f["en"]])
            if f.get("rsz"):
                return vsc.randsz_list_t(et)
            if f.get("r"):
                return vsc.rand_list_t(et, sz=f.get("sz", 0))
            return vsc.list_t(et, sz=f.get("sz", 0))
        if k == "o":
            o = self.classes[f["c"]]()
            return vsc.rand_attr(o) if f.get("r") else vsc.attr(o)
        if k == "lo":
            proto = self.classes[f["c"]]()
            l = vsc.rand_list_t(proto) if f.get("r") else vsc.list_t(proto)
            for _ in range(f.get("sz", 0)):
                l.append(self.classes[f["c"]]())
            return l
        raise Exception("unknown field kind " + k)

    def _make_class(self, c):
        env = self
        cname = c["name"]
        base = self.classes[c["base"]] if c.get("base") else object

        def __init__(self):
            env.site("init_enter", cls=cname)
            if base is not object:
                base.__init__(self)
            for f in c.get("fields", []):
                setattr(self, f["n"], env._make_field(f, cname))
            for rl in c.get("rls", []):
                object.__setattr__(self, rl["n"], vsc.rangelist(*_rl_items(rl["items"])))
            env.site("init_exit", cls=cname)

        ns = {"__init__": __init__}
        for b in c.get("blocks", []):
            def body(self, b=b):
                env.site("block_enter", cls=cname, block=b["n"])
                env.stmts(b["stmts"], self, [])
                env.site("block_exit", cls=cname, block=b["n"])
            body.__name__ = b["n"]
            ns[b["n"]] = vsc.dynamic_constraint(body) if b.get("dyn") \
                else vsc.constraint(body)
        if c.get("cb"):
            def pre_randomize(self):
                env.callback(self, "pre", cname)

            def post_randomize(self):
                env.callback(self, "post", cname)
            ns["pre_randomize"] = pre_randomize
            ns["post_randomize"] = post_randomize
        T = type(cname + self.tag, (base,), ns)
        if c.get("srcinfo"):
            return vsc.randobj(srcinfo=True)(T)
        return vsc.randobj(T)

    # ------------------------------------------------------------------
    # statements (interpreted inside a constraint scope / expression mode)
    # ------------------------------------------------------------------
    def stmts(self, stmts, o, loops):
        for i, s in enumerate(stmts):
            self.site("stmt", index=i, st=s["t"])
            self.stmt(s, o, loops)

    def stmt(self, s, o, loops):
        t = s["t"]
        if t == "expr":
            e = s["e"]
            if e["t"] == "bin":
                # fault site between the operands: user code (a helper called inside the
                # expression) may raise while the left operand is already built
                l = self.bx(e["l"], o, loops)
                if isinstance(l, int):
                    l = vsc.signed(int(l))
                self.site("expr_mid", st="bin")
                r = _binop(e["op"], l, self.bx(e["r"], o, loops))
            else:
                r = self.bx(e, o, loops)
            if not isinstance(r, vsc.types.expr):
                # bare field used as a statement: force it onto the stack
                vsc.types.to_expr(r)
        elif t == "if":
            with vsc.if_then(self.bx(s["c"], o, loops)):
                self.stmts(s["then"], o, loops)
            for (c, body) in s.get("elifs", []):
                with vsc.else_if(self.bx(c, o, loops)):
                    self.stmts(body, o, loops)
            if s.get("else") is not None:
                with vsc.else_then:
                    self.stmts(s["else"], o, loops)
        elif t == "implies":
            with vsc.implies(self.bx(s["c"], o, loops)):
                self.stmts(s["body"], o, loops)
        elif t == "soft":
            vsc.soft(self.bx(s["e"], o, loops))
        elif t == "unique":
            args = []
            for a in s["args"]:
                if a["t"] == "flist":
                    args.append(self.path(a["p"], o, loops))
                else:
                    args.append(self.bx(a, o, loops))
            vsc.unique(*args)
        elif t == "unique_vec":
            vsc.unique_vec(*[self.path(a["p"], o, loops) for a in s["args"]])
        elif t == "foreach":
            l = self.path(s["p"], o, loops)
            it, idx = bool(s.get("it", False)), bool(s.get("idx", True))
            with vsc.foreach(l, it=it or None, idx=idx or None) as v:
                if it and idx:
                    lp = {"idx": v[0], "it": v[1], "list": l}
                elif it:
                    lp = {"idx": None, "it": v, "list": l}
                else:
                    lp = {"idx": v, "it": None, "list": l}
                self.stmts(s["body"], o, loops + [lp])
        elif t == "dist":
            tgt = self.bx(s["e"], o, loops)
            ws = []
            for ent in s["w"]:
                val = ent["v"]
                if isinstance(val, (list, tuple)):
                    val = (val[0], val[1])
                w = ent["w"]
                if isinstance(w, dict):
                    w = self.bx(w, o, loops)
                ws.append(vsc.weight(val, w))
            vsc.dist(tgt, ws)
        elif t == "solve_order":
            b = [self.path(p, o, loops) for p in s["before"]]
            a = [self.path(p, o, loops) for p in s["after"]]
            vsc.solve_order(b if len(b) > 1 or s.get("aslist") else b[0],
                            a if len(a) > 1 or s.get("aslist") else a[0])
        elif t == "raise":
            # user code inside a constraint / with-block body fails here
            raise Fault("injected in a generated body")
        else:
            raise Exception("unknown stmt " + t)

    # ------------------------------------------------------------------
    # paths and expressions
    # ------------------------------------------------------------------
    def path(self, p, o, loops):
        cur = o
        i = 0
        while i < len(p):
            x = p[i]
            if isinstance(x, dict):
                lp = loops[-1 - x.get("d", 0)]
                if x.get("it") and lp["it"] is not None and x.get("o", 0) == 0:
                    cur = lp["it"]
                else:
                    off = x.get("o", 0)
                    ix = lp["idx"]
                    if off > 0:
                        ix = ix + off
                    elif off < 0:
                        ix = ix - (-off)
                    cur = cur[ix]
            elif isinstance(x, int):
                cur = cur[x]
            else:
                cur = getattr(cur, x)
            i += 1
        return cur

    def bx(self, e, o, loops):
        t = e["t"]
        if t == "f":
            return self.path(e["p"], o, loops)
        if t == "lit":
            return e["v"]
        if t == "g":
            # a stand-alone field that lives outside every object
            return self.globals[e["n"]]
        if t == "slit":
            return vsc.signed(e["v"], e.get("w", -1))
        if t == "ulit":
            return vsc.unsigned(e["v"], e.get("w", -1))
        if t == "en":
            return self.enums[e["en"]][e["item"]]
        if t == "idx":
            return loops[-1 - e.get("d", 0)]["idx"]
        if t == "bin":
            l = self.bx(e["l"], o, loops)
            if isinstance(l, int):
                l = vsc.signed(int(l))
            r = self.bx(e["r"], o, loops)
            return _binop(e["op"], l, r)
        if t == "not":
            v = self.bx(e["e"], o, loops)
            return ~v
        if t == "in":
            v = self.bx(e["e"], o, loops)
            if isinstance(v, int):
                v = vsc.signed(int(v))
            items = []
            for it in e["rl"]:
                # items may be literals or plain (non-random) field references
                if isinstance(it, (list, tuple)):
                    items.append(tuple(self.path(x["p"], o, loops) if isinstance(x, dict) else x for x in it))
                elif isinstance(it, dict):
                    items.append(self.path(it["p"], o, loops))
                else:
                    items.append(it)
            return v.inside(vsc.rangelist(*items))
        if t == "inrl":
            v = self.bx(e["e"], o, loops)
            return v.inside(object.__getattribute__(o, e["name"]))
        if t == "inlist":
            v = self.bx(e["e"], o, loops)
            return v.inside(self.path(e["p"], o, loops))
        if t == "ps":
            f = self.path(e["p"], o, loops)
            if "bit_f" in e:
                return f[self.path(e["bit_f"], o, loops)]
            if e["hi"] == e["lo"] and e.get("bit"):
                return f[e["hi"]]
            return f[e["hi"]:e["lo"]]
        if t == "size":
            return self.path(e["p"], o, loops).size
        if t == "sum":
            return self.path(e["p"], o, loops).sum
        if t == "product":
            return self.path(e["p"], o, loops).product
        if t == "dynref":
            tgt = self.path(e.get("p", []), o, loops)
            return getattr(tgt, e["n"])()
        raise Exception("unknown expr " + t)


def _rl_items(items):
    out = []
    for it in items:
        if isinstance(it, (list, tuple)):
            out.append((it[0], it[1]))
        else:
            out.append(it)
    return out


def _binop(op, l, r):
    if op == "==":
        return l == r
    if op == "!=":
        return l != r
    if op == "<":
        return l < r
    if op == "<=":
        return l <= r
    if op == ">":
        return l > r
    if op == ">=":
        return l >= r
    if op == "+":
        return l + r
    if op == "-":
        return l - r
    if op == "*":
        return l * r
    if op == "/":
        return l / r
    if op == "%":
        return l % r
    if op == "&":
        return l & r
    if op == "|":
        return l | r
    if op == "^":
        return l ^ r
    if op == "<<":
        return l << r
    if op == ">>":
        return l >> r
    raise Exception("unknown op " + op)


# ----------------------------------------------------------------------
# state access through the public API
# ----------------------------------------------------------------------
def read_tree(env, cname, obj):
    """value tree of an object as the user sees it (attribute reads)"""
    out = {}
    for f in env.prog.fields(cname):
        n, k = f["n"], f["k"]
        if k == "s":
            out[n] = int(getattr(obj, n))
        elif k == "e":
            out[n] = int(getattr(obj, n))
        elif k in ("l", "le"):
            out[n] = [int(v) for v in getattr(obj, n)]
        elif k == "o":
            out[n] = read_tree(env, f["c"], getattr(obj, n))
        elif k == "lo":
            out[n] = [read_tree(env, f["c"], e) for e in getattr(obj, n)]
    return out


def get_path(env, obj, path):
    cur = obj
    for p in path:
        if isinstance(p, int):
            cur = cur[p]
        else:
            cur = getattr(cur, p)
    return cur


def assign_path(env, cname, obj, path, v):
    """attribute / index assignment of an in-range value"""
    cx = refsem.Cx(env.prog, cname, None)
    f = cx.ftype(path)
    parent = get_path(env, obj, path[:-1])
    last = path[-1]
    if f["k"] in ("e", "le"):
        v = env.enums[f["en"]](v)
    if isinstance(last, int):
        parent[last] = v
    else:
        setattr(parent, last, v)


def write_tree(env, cname, obj, tree, only_nonrand=False):
    """assign every scalar field / list element the tree's value (lengths
    must agree)"""
    for p in refsem.all_scalar_paths(env.prog, cname, tree):
        assign_path(env, cname, obj, p, refsem._walk(tree, p))


def sync_tree(env, cname, obj, tree):
    """bring an object to the state described by a value tree, including the
    lengths of its scalar lists (list assignment through the public API)"""
    for f in env.prog.fields(cname):
        n, k = f["n"], f["k"]
        if k == "s":
            setattr(obj, n, tree[n])
        elif k == "e":
            setattr(obj, n, env.enums[f["en"]](tree[n]))
        elif k == "l":
            setattr(obj, n, list(tree[n]))
        elif k == "le":
            setattr(obj, n, [env.enums[f["en"]](v) for v in tree[n]])
        elif k == "o":
            sync_tree(env, f["c"], getattr(obj, n), tree[n])
        elif k == "lo":
            for e, t in zip(getattr(obj, n), tree[n]):
                sync_tree(env, f["c"], e, t)

"""Simulation kernel: seed derivation, independent PRNG streams, event log,
simulated clock, simulated file ("disk") with fault scripts.

Nothing in this module imports pyvsc.  Nothing here reads a real clock or draws
from a PRNG in a logging path.
"""
import hashlib
import io
import json
import random

STREAMS = ("prog", "ops", "fault", "noise", "lib")


def H(*parts):
    """Stable 63-bit hash of the parts (independent of PYTHONHASHSEED)."""
    m = hashlib.sha256()
    for p in parts:
        m.update(repr(p).encode())
        m.update(b"\0")
    return int.from_bytes(m.digest()[:8], "big") >> 1


def digest(obj):
    """sha-256 of a JSON-serialisable object (sorted keys)."""
    return hashlib.sha256(
        json.dumps(obj, sort_keys=True, default=str).encode()).hexdigest()


class Streams(object):
    """Independent random.Random instances derived from one run seed, so that
    deleting an op during minimisation shifts nothing else."""

    def __init__(self, seed):
        self.seed = seed
        for s in STREAMS:
            setattr(self, s, random.Random(H(seed, s)))

    def sub(self, name):
        return random.Random(H(self.seed, "sub", name))


class EventLog(object):
    """Global sequence-numbered log of API calls and library->user callbacks."""

    def __init__(self, clock=None):
        self.seq = 0
        self.events = []
        self.clock = clock

    def add(self, kind, **kw):
        self.seq += 1
        ev = {"seq": self.seq, "k": kind}
        ev.update(kw)
        self.events.append(ev)
        if self.clock is not None:
            self.clock.tick()
        return self.seq

    def digest(self):
        return digest(self.events)


class SimClock(object):
    """Simulated wall clock.  Monotone by default (+1 ms per event); the
    scheduler may jump it forwards/backwards or freeze it."""

    def __init__(self, start=1_700_000_000.0):
        self.now = start
        self.start = start
        self.frozen = False
        self.jumps = 0
        self.reads = 0
        self.elapsed = 0.0

    def tick(self, dt=0.001):
        self.elapsed += dt
        if not self.frozen:
            self.now += dt

    def jump(self, dt):
        self.jumps += 1
        self.now += dt

    def freeze(self, on=True):
        self.frozen = on

    # -- what patched modules call
    def time(self):
        self.reads += 1
        return self.now

    def ucis_time(self):
        # PyUCIS ucis_Time(): int(time.time()) in the real implementation
        self.reads += 1
        return int(self.now)


class SimIOError(OSError):
    pass


class SimFile(object):
    """In-memory 'disk' file object accepted by write_coverage_db / report_coverage.

    fault script: dict with optional keys
      fail_after : raise OSError(ENOSPC) once this many characters were accepted
      fail_close : close() raises EIO
      torn_after : silently drop everything after this many characters
    """

    def __init__(self, fault=None, binary=False):
        self.fault = fault or {}
        self.buf = io.BytesIO() if binary else io.StringIO()
        self.binary = binary
        self.written = 0
        self.closed = False
        self.fired = []
        self.calls = 0

    def write(self, s):
        self.calls += 1
        n = len(s)
        fa = self.fault.get("fail_after")
        if fa is not None and self.written + n > fa:
            keep = max(0, fa - self.written)
            self.buf.write(s[:keep])
            self.written += keep
            self.fired.append("io_error")
            raise SimIOError(28, "No space left on device (simulated)")
        ta = self.fault.get("torn_after")
        if ta is not None and self.written + n > ta:
            keep = max(0, ta - self.written)
            self.buf.write(s[:keep])
            self.written += n          # pretend everything was accepted
            if "torn" not in self.fired:
                self.fired.append("torn")
            return n
        self.buf.write(s)
        self.written += n
        return n

    def flush(self):
        pass

    def close(self):
        if self.fault.get("fail_close"):
            self.fired.append("close_error")
            self.closed = True
            raise SimIOError(5, "Input/output error (simulated)")
        self.closed = True

    def getvalue(self):
        return self.buf.getvalue()


class Violation(Exception):
    """Raised by oracles; carries invariant name and JSON-serialisable detail."""

    def __init__(self, inv, **detail):
        super().__init__(inv)
        self.inv = inv
        self.detail = detail

    def to_json(self):
        return {"inv": self.inv, "detail": self.detail}

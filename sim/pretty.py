"""Renders a run record (program AST + ops) as stand-alone Python source using
the public pyvsc DSL, for replay files and for human triage."""
import json


def px(e, o="self", loops=None):
    t = e["t"]
    if t == "f":
        return ppath(e["p"], o)
    if t == "lit":
        return repr(e["v"])
    if t == "g":
        return e["n"]
    if t == "slit":
        return "vsc.signed(%d%s)" % (e["v"], (", %d" % e["w"]) if "w" in e else "")
    if t == "ulit":
        return "vsc.unsigned(%d%s)" % (e["v"], (", %d" % e["w"]) if "w" in e else "")
    if t == "en":
        return "%s.%s" % (e["en"], e["item"])
    if t == "idx":
        return "i%d" % e.get("d", 0)
    if t == "bin":
        return "(%s %s %s)" % (px(e["l"], o), e["op"], px(e["r"], o))
    if t == "not":
        return "(~%s)" % px(e["e"], o)
    if t == "in":
        def it_(x):
            return px(x, o) if isinstance(x, dict) else str(x)
        return "%s.inside(vsc.rangelist(%s))" % (px(e["e"], o), ", ".join(
            ("(%s, %s)" % (it_(x[0]), it_(x[1]))) if isinstance(x, list) else it_(x) for x in e["rl"]))
    if t == "inrl":
        return "%s.inside(%s.%s)" % (px(e["e"], o), o, e["name"])
    if t == "inlist":
        return "%s.inside(%s)" % (px(e["e"], o), ppath(e["p"], o))
    if t == "ps":
        if "bit_f" in e:
            return "%s[%s]" % (ppath(e["p"], o), ppath(e["bit_f"], o))
        return "%s[%d:%d]" % (ppath(e["p"], o), e["hi"], e["lo"])
    if t in ("size", "sum", "product"):
        return "%s.%s" % (ppath(e["p"], o), t)
    if t == "dynref":
        return "%s.%s()" % (ppath(e.get("p", []), o), e["n"])
    if t == "flist":
        return ppath(e["p"], o)
    return "<%s>" % t


def ppath(p, o):
    s = o
    for x in p:
        if isinstance(x, dict):
            d = x.get("d", 0)
            off = x.get("o", 0)
            if x.get("it") and off == 0:
                s = "it%d" % d
            else:
                s += "[i%d%s]" % (d, ("%+d" % off) if off else "")
        elif isinstance(x, int):
            s += "[%d]" % x
        else:
            s += "." + x
    return s


def pstmts(stmts, o, ind, depth=0):
    out = []
    pad = "    " * ind
    if not stmts:
        out.append(pad + "pass")
    for s in stmts:
        t = s["t"]
        if t == "expr":
            out.append(pad + px(s["e"], o))
        elif t == "if":
            out.append(pad + "with vsc.if_then(%s):" % px(s["c"], o))
            out += pstmts(s["then"], o, ind + 1, depth)
            for (c, b) in s.get("elifs", []):
                out.append(pad + "with vsc.else_if(%s):" % px(c, o))
                out += pstmts(b, o, ind + 1, depth)
            if s.get("else") is not None:
                out.append(pad + "with vsc.else_then:")
                out += pstmts(s["else"], o, ind + 1, depth)
        elif t == "implies":
            out.append(pad + "with vsc.implies(%s):" % px(s["c"], o))
            out += pstmts(s["body"], o, ind + 1, depth)
        elif t == "soft":
            out.append(pad + "vsc.soft(%s)" % px(s["e"], o))
        elif t == "unique":
            out.append(pad + "vsc.unique(%s)" % ", ".join(px(a, o) for a in s["args"]))
        elif t == "unique_vec":
            out.append(pad + "vsc.unique_vec(%s)" % ", ".join(px(a, o) for a in s["args"]))
        elif t == "foreach":
            out.append(pad + "with vsc.foreach(%s, idx=True, it=True) as (i%d, it%d):" % (
                ppath(s["p"], o), depth, depth))
            out += pstmts(s["body"], o, ind + 1, depth + 1)
        elif t == "dist":
            ws = []
            for ent in s["w"]:
                v = ent["v"]
                vs = "(%s, %s)" % (v[0], v[1]) if isinstance(v, list) else str(v)
                wv = px(ent["w"], o) if isinstance(ent["w"], dict) else str(ent["w"])
                ws.append("vsc.weight(%s, %s)" % (vs, wv))
            out.append(pad + "vsc.dist(%s, [%s])" % (px(s["e"], o), ", ".join(ws)))
        elif t == "solve_order":
            out.append(pad + "vsc.solve_order([%s], [%s])" % (
                ", ".join(ppath(p, o) for p in s["before"]),
                ", ".join(ppath(p, o) for p in s["after"])))
        elif t == "raise":
            out.append(pad + "raise RuntimeError('user code fails here')")
        else:
            out.append(pad + "# <%s>" % t)
    return out


def pfield(f):
    k = f["k"]
    if k == "s":
        ty = ("rand_" if f.get("r") else "") + ("int_t" if f["s"] else "bit_t")
        return "vsc.%s(%d%s)" % (ty, f["w"], (", i=%d" % f["i"]) if f.get("i") else "")
    if k == "e":
        return "vsc.%senum_t(%s)" % ("rand_" if f.get("r") else "", f["en"])
    if k in ("l", "le"):
        et = ("vsc.enum_t(%s)" % f["en"]) if k == "le" else \
            ("vsc.%s(%d)" % ("int_t" if f["s"] else "bit_t", f["w"]))
        if f.get("rsz"):
            return "vsc.randsz_list_t(%s)" % et
        return "vsc.%slist_t(%s, sz=%d)" % ("rand_" if f.get("r") else "", et, f.get("sz", 0))
    if k == "o":
        return "vsc.%sattr(%s())" % ("rand_" if f.get("r") else "", f["c"])
    if k == "lo":
        return "vsc.%slist_t(%s())  # + %d appended elements" % (
            "rand_" if f.get("r") else "", f["c"], f.get("sz", 0))
    return "?"


def program_source(prog):
    out = ["import vsc", "from enum import IntEnum", ""]
    for e in prog.get("enums", []):
        out.append("class %s(IntEnum):" % e["name"])
        for (n, v) in e["items"]:
            out.append("    %s = %d" % (n, v))
        out.append("")
    for g_ in prog.get("globals", []):
        out.append("%s = vsc.%s%s_t(%d)   # stand-alone field" % (
            g_["n"], "rand_" if g_.get("r") else "", "int" if g_.get("s") else "bit", g_["w"]))
    for c in prog.get("classes", []):
        out.append("@vsc.randobj")
        out.append("class %s%s:" % (c["name"], ("(%s)" % c["base"]) if c.get("base") else ""))
        out.append("    def __init__(self):")
        if c.get("base"):
            out.append("        super().__init__()")
        for f in c.get("fields", []):
            out.append("        self.%s = %s" % (f["n"], pfield(f)))
            if f["k"] == "lo":
                out.append("        for _ in range(%d): self.%s.append(%s())" % (
                    f.get("sz", 0), f["n"], f["c"]))
        for rl in c.get("rls", []):
            out.append("        self.%s = vsc.rangelist(%s)" % (rl["n"], ", ".join(
                ("(%s, %s)" % (x[0], x[1])) if isinstance(x, list) else str(x)
                for x in rl["items"])))
        if not c.get("fields") and not c.get("base"):
            out.append("        pass")
        for b in c.get("blocks", []):
            out.append("    @vsc.%s" % ("dynamic_constraint" if b.get("dyn") else "constraint"))
            out.append("    def %s(self):" % b["n"])
            out += pstmts(b["stmts"], "self", 2)
        if c.get("cb"):
            out.append("    def pre_randomize(self): ...   # recorded by the simulator")
            out.append("    def post_randomize(self): ...  # recorded by the simulator")
        out.append("")
    return "\n".join(out)


def ops_source(ops):
    out = []
    n = 0
    for op in ops:
        k = op["op"]
        p = "p%s" % op.get("p")
        if k == "new":
            out.append("p%d = %s()" % (n, op["cls"]))
            n += 1
        elif k == "seed":
            out.append("%s.set_randstate(vsc.RandState.mkFromSeed(%d%s))" % (
                p, op["k"], (", %r" % op["sv"]) if op.get("sv") is not None else ""))
        elif k == "assign":
            out.append("%s = %r" % (ppath(op["path"], p), op["v"]))
        elif k == "randomize":
            out.append("%s.randomize(%s)" % (p, "solve_fail_debug=1" if op.get("sfd") else ""))
        elif k == "rw":
            out.append("with %s.randomize_with(%s) as it:" % (p, "solve_fail_debug=1" if op.get("sfd") else ""))
            out += pstmts(op["inline"], "it", 1)
        elif k == "frand":
            out.append("vsc.randomize(%s)" % ", ".join(ppath(t[1], "p%d" % t[0]) for t in op["targets"]))
        elif k == "frw":
            out.append("with vsc.randomize_with(%s):" % ", ".join(ppath(t[1], "p%d" % t[0]) for t in op["targets"]))
            out += pstmts(op["inline"], "p%s" % op.get("ctx"), 1)
        elif k == "rand_mode":
            out.append("with vsc.raw_mode(): %s.rand_mode = %r" % (ppath(op["path"], p), bool(op["on"])))
        elif k == "cmode":
            out.append("%s.%s.constraint_mode(%r)" % (ppath(op.get("path", []), p), op["block"], bool(op["on"])))
        else:
            d = {a: b for a, b in op.items() if a != "op"}
            out.append("# %s %s" % (k, json.dumps(d, default=str)[:200]))
    return "\n".join(out)


def record_source(rec):
    return program_source(rec.get("prog", {})) + "\n" + ops_source(rec.get("ops", []))


if __name__ == "__main__":
    import sys
    doc = json.load(open(sys.argv[1]))
    rec = doc.get("record", doc)
    print(record_source(rec))
    if "violation" in doc:
        print("# violation:", json.dumps(doc["violation"], default=str)[:1500])

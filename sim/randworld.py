"""Rand-object world: parties are live pyvsc objects; ops are public API calls.
The world executes ops, records an event per op / callback and exposes what
the oracles need (value trees before/after, outcome class, reference-side
bookkeeping of rand_mode / constraint_mode / rangelist contents).
"""
import gc
import random

import vsc
from vsc.model.rand_state import RandState
from vsc.model.solve_failure import SolveFailure

from . import builder, kernel, refsem
from .builder import Fault


class Party(object):
    def __init__(self, cname, obj, env=None):
        self.cname = cname
        self.obj = obj
        self.env = env
        self.rand_off = set()        # path keys with rand_mode off
        self.modes = {}              # {obj path key: {block: bool}}
        self.rangelists = {}         # name -> items (reference copy)
        self.snaps = {}


class World(object):
    def __init__(self, prog, tag=""):
        self.clock = kernel.SimClock()
        self.log = kernel.EventLog(self.clock)
        self.env = builder.Env(prog, world=self, tag=tag)
        self.prog = self.env.prog
        self.parties = []
        self.fault_plan = {}         # site number -> kind
        self.site_no = 0
        self.sites_seen = []
        self.faults_fired = {}
        self.cb_handler = None
        self.record_sites = False

    # ------------------------------------------------------------ callbacks
    def site(self, kind, **info):
        self.site_no += 1
        if self.record_sites:
            self.sites_seen.append((self.site_no, kind))
        k = self.fault_plan.get(self.site_no)
        if k is not None:
            self.faults_fired[k] = self.faults_fired.get(k, 0) + 1
            self.log.add("fault", site=self.site_no, at=kind)
            raise Fault("injected at site %d (%s)" % (self.site_no, kind))

    def callback(self, obj, phase, cname):
        self.site("cb_" + phase, cls=cname)
        if self.cb_handler is not None:
            self.cb_handler(obj, phase, cname)

    # -------------------------------------------------------------- helpers
    globals_reader = None

    def tree(self, p):
        pt = self.parties[p]
        t = builder.read_tree(pt.env, pt.cname, pt.obj)
        if self.globals_reader is not None:
            t["$g"] = self.globals_reader()
        return t

    def new(self, cname, env=None):
        env = env or self.env
        obj = env.classes[cname]()
        pt = Party(cname, obj, env)
        for c in env.prog.mro(cname):
            for rl in c.get("rls", []):
                pt.rangelists[rl["n"]] = [list(x) if isinstance(x, (list, tuple)) else x
                                          for x in rl["items"]]
        self.parties.append(pt)
        return len(self.parties) - 1

    def witness(self, op):
        """True when the values present before a randomize / randomize_with already satisfy
        every enforced constraint (reference evaluator; modes, rangelists and the call's inline
        block included) and every random scalar is inside its declared type: the state itself
        is then a solution, so the call must not fail.  Deliberately narrow: no callbacks (they
        may move constants), no random-size lists (the size is solved too), no faulted calls."""
        if op.get("op") not in ("randomize", "rw") or op.get("aborted") or op.get("fault"):
            return False
        pt = self.parties[op["p"]]
        P = pt.env.prog
        for c in P.prog.get("classes", []):
            if c.get("cb"):
                return False
            for f in c.get("fields", []):
                if f.get("rsz"):
                    return False
        try:
            pre = self.tree(op["p"])
            if refsem.check_tree(P, pt.cname, pre, pt.modes, pt.rangelists, op.get("inline")) is not None:
                return False
            for q in self.rand_paths(op["p"], pre):
                if refsem._walk(pre, q) not in refsem.path_domain(P, pt.cname, q):
                    return False
        except refsem.RefError:
            return False
        except (KeyError, IndexError, TypeError):
            return False
        return True

    def rand_paths(self, p, tree=None):
        pt = self.parties[p]
        tree = tree if tree is not None else self.tree(p)
        return refsem.rand_scalar_paths(pt.env.prog, pt.cname, tree, pt.rand_off)

    # ------------------------------------------------------------------ ops
    def apply(self, op):
        """executes one op; returns outcome dict {"st": ok|solvefail|exc|fault, ...}"""
        k = op["op"]
        self.log.add("op", op=k, p=op.get("p"))
        fn = getattr(self, "op_" + k)
        try:
            r = fn(op)
            out = {"st": "ok"}
            if isinstance(r, dict):
                out.update(r)
            return out
        except SolveFailure:
            return {"st": "solvefail"}
        except Fault as e:
            return {"st": "fault", "msg": str(e)}
        except Exception as e:      # library-internal exception: judged by oracles
            import traceback
            tb = traceback.extract_tb(e.__traceback__)
            where = ""
            for fr in reversed(tb):
                if "/vsc/" in fr.filename:
                    where = "%s:%s" % (fr.filename.split("/vsc/")[-1], fr.name)
                    break
            return {"st": "exc", "exc": type(e).__name__, "msg": str(e)[:300],
                    "where": where}

    def op_new(self, op):
        return {"p": self.new(op["cls"])}

    def op_newprog(self, op):
        """late construction: build the classes of another program now and
        create a party of its top class"""
        env = builder.Env(op["prog"], world=self, tag=self.env.tag + "_L%d" % len(self.parties))
        return {"p": self.new(op["prog"]["top"], env)}

    def op_seed(self, op):
        # (the two-argument form folds a string into the seed)
        self.parties[op["p"]].obj.set_randstate(
            RandState.mkFromSeed(op["k"], op["sv"]) if op.get("sv") is not None else RandState.mkFromSeed(op["k"]))

    def op_assign(self, op):
        pt = self.parties[op["p"]]
        builder.assign_path(pt.env, pt.cname, pt.obj, op["path"], op["v"])

    def op_rand_mode(self, op):
        pt = self.parties[op["p"]]
        parent = builder.get_path(pt.env, pt.obj, op["path"][:-1])
        with vsc.raw_mode():
            getattr(parent, op["path"][-1]).rand_mode = bool(op["on"])
        key = refsem.path_key(op["path"])
        if op["on"]:
            pt.rand_off.discard(key)
        else:
            pt.rand_off.add(key)

    def op_cmode(self, op):
        pt = self.parties[op["p"]]
        tgt = builder.get_path(pt.env, pt.obj, op.get("path", []))
        getattr(tgt, op["block"]).constraint_mode(bool(op["on"]))
        pt.modes.setdefault(refsem.path_key(op.get("path", [])), {})[op["block"]] = bool(op["on"])

    def op_rl(self, op):
        pt = self.parties[op["p"]]
        rl = object.__getattribute__(pt.obj, op["name"])
        ref = pt.rangelists[op["name"]]
        if op["act"] == "clear":
            rl.clear()
            del ref[:]
        elif op["act"] == "append":
            it = op["items"][0]
            rl.append(tuple(it) if isinstance(it, list) else it)
            ref.append(it)
        elif op["act"] == "extend":
            rl.extend([tuple(it) if isinstance(it, list) else it for it in op["items"]])
            ref.extend(op["items"])

    def op_randomize(self, op):
        pt = self.parties[op["p"]]
        kw = {}
        if op.get("debug"):
            kw["debug"] = op["debug"]
        if op.get("sfd"):
            kw["solve_fail_debug"] = op["sfd"]
        pt.obj.randomize(**kw)

    def op_rw(self, op):
        pt = self.parties[op["p"]]
        kw = {}
        if op.get("debug"):
            kw["debug"] = op["debug"]
        if op.get("sfd"):
            kw["solve_fail_debug"] = op["sfd"]
        with pt.obj.randomize_with(**kw) as it:
            self.site("with_enter")
            pt.env.stmts(op["inline"], it, [])
            self.site("with_exit")

    def _targets(self, op):
        out = []
        for (p, path) in op["targets"]:
            pt = self.parties[p]
            if path:
                with vsc.raw_mode():
                    out.append(builder.get_path(pt.env, pt.obj, path))
            else:
                out.append(pt.obj)
        return out

    def op_frand(self, op):
        kw = {}
        if op.get("k") is not None:
            kw["randstate"] = RandState.mkFromSeed(op["k"])
        if op.get("debug"):
            kw["debug"] = op["debug"]
        vsc.randomize(*self._targets(op), **kw)

    def op_frw(self, op):
        kw = {}
        if op.get("k") is not None:
            kw["randstate"] = RandState.mkFromSeed(op["k"])
        tg = self._targets(op)
        ctx = self.parties[op["ctx"]].obj if op.get("ctx") is not None else None
        with vsc.randomize_with(*tg, **kw):
            self.site("with_enter")
            self.parties[op["ctx"]].env.stmts(op["inline"], ctx, [])
            self.site("with_exit")

    # -- list edits
    def op_lappend(self, op):
        pt = self.parties[op["p"]]
        builder.get_path(pt.env, pt.obj, op["path"]).append(self._lv(pt, op["path"], op["v"]))

    def op_lextend(self, op):
        pt = self.parties[op["p"]]
        builder.get_path(pt.env, pt.obj, op["path"]).extend(
            [self._lv(pt, op["path"], v) for v in op["v"]])

    def op_lclear(self, op):
        pt = self.parties[op["p"]]
        builder.get_path(pt.env, pt.obj, op["path"]).clear()

    def op_lassign(self, op):
        pt = self.parties[op["p"]]
        parent = builder.get_path(pt.env, pt.obj, op["path"][:-1])
        setattr(parent, op["path"][-1], [self._lv(pt, op["path"], v) for v in op["v"]])

    def op_lo_replace(self, op):
        """assign an object list a new set of element objects"""
        pt = self.parties[op["p"]]
        parent = builder.get_path(pt.env, pt.obj, op["path"][:-1])
        setattr(parent, op["path"][-1], [pt.env.classes[op["cls"]]() for _ in range(op["n"])])

    def op_lo_append(self, op):
        """legal append of a new element object"""
        pt = self.parties[op["p"]]
        lst = builder.get_path(pt.env, pt.obj, op["path"])
        n0 = len(lst)
        new = pt.env.classes[op["cls"]]()
        lst.append(new)
        self.last_append = {"len_before": n0, "len_after": len(lst),
                            "last_is_new": len(lst) > 0 and lst[len(lst) - 1] is new}

    def op_lo_append_bad(self, op):
        """user error that the caller catches: an object of an unrelated class is appended.
        Returns what the user sees of the list before and after."""
        pt = self.parties[op["p"]]
        lst = builder.get_path(pt.env, pt.obj, op["path"])
        before = [id(e) for e in lst]
        try:
            lst.append(pt.env.classes[op["bad"]]())
            rejected = False
        except Exception:
            rejected = True
        self.last_bad_append = {"rejected": rejected, "before": before, "after": [id(e) for e in lst],
                                "len_before": len(before), "len_after": len(lst)}

    def op_lo_setitem(self, op):
        """replace one element object of an object list: lst[i] = Cls()"""
        pt = self.parties[op["p"]]
        lst = builder.get_path(pt.env, pt.obj, op["path"])
        if len(lst) == 0:
            return
        lst[op["i"] % len(lst)] = pt.env.classes[op["cls"]]()

    def _lv(self, pt, path, v):
        cx = refsem.Cx(pt.env.prog, pt.cname, None)
        f = cx.ftype(path)
        if f["k"] == "le":
            return pt.env.enums[f["en"]](v)
        return v

    # -- random state
    def op_snap(self, op):
        pt = self.parties[op["p"]]
        pt.snaps[op["slot"]] = pt.obj.get_randstate()

    def op_restore(self, op):
        pt = self.parties[op["p"]]
        pt.obj.set_randstate(pt.snaps[op["slot"]])

    # -- noise / world
    def op_noise(self, op):
        kind = op["kind"]
        if kind == "gc":
            gc.collect()
        elif kind == "junk":
            self._junk = [object() for _ in range(op.get("n", 1000))]
            self._junk2 = [dict(a=i) for i in range(op.get("n", 1000) // 4)]
            del self._junk
        elif kind == "grand":
            for _ in range(op.get("n", 3)):
                random.random()
        elif kind == "gseed":
            random.seed(op["k"])
        elif kind == "clock":
            self.clock.jump(op.get("dt", 3600.0))
        elif kind == "freeze":
            self.clock.freeze(op.get("on", True))

    # ---------------------------------------------------------------- probes
    def probe(self, p, point, extra_inline=None):
        """pin-probe: randomize_with pinning every given path; True iff the
        implementation accepts the point.  Random state and field values are
        saved and restored through the public API."""
        pt = self.parties[p]
        saved_rs = pt.obj.get_randstate()
        before = self.tree(p)
        stmts = []
        for (path, v) in point:
            f = refsem.Cx(pt.env.prog, pt.cname, None).ftype(path)
            if f["k"] in ("e", "le"):
                rhs = {"t": "en", "en": f["en"], "item": pt.env.prog.enum_item(f["en"], v)}
            else:
                rhs = {"t": "lit", "v": v}
            stmts.append({"t": "expr", "e": {"t": "bin", "op": "==",
                                             "l": {"t": "f", "p": list(path)}, "r": rhs}})
        if extra_inline:
            stmts = list(extra_inline) + stmts
        self.log.add("probe", p=p)
        try:
            with pt.obj.randomize_with() as it:
                pt.env.stmts(stmts, it, [])
            ok = True
        except SolveFailure:
            ok = False
        finally:
            pt.obj.set_randstate(saved_rs)
        # put the values back (only random fields can have changed)
        after = self.tree(p)
        if after != before:
            for path in refsem.all_scalar_paths(pt.env.prog, pt.cname, before):
                a = refsem._walk(before, path)
                try:
                    b = refsem._walk(after, path)
                except (IndexError, KeyError):
                    b = None
                if a != b:
                    builder.assign_path(pt.env, pt.cname, pt.obj, path, a)
        return ok


# ----------------------------------------------------------------------
# internal-state inspection (C16: observe_at = module state + object model)
# ----------------------------------------------------------------------
def global_state():
    """lengths of the library's shared construction stacks"""
    import vsc.impl.ctor as ctor
    import vsc.impl.expr_mode as em
    return {"expr_l": len(ctor.expr_l),
            "constraint_scope_stack": len(ctor.constraint_scope_stack),
            "srcinfo_mode_s": len(ctor.srcinfo_mode_s),
            "foreach_arr_s": len(ctor.foreach_arr_s),
            "_expr_mode": len(em._expr_mode),
            "_raw_mode": len(em._raw_mode)}


def model_residue(obj):
    """leftover temporary constraints / solver handles in an object's model"""
    from vsc.model.field_composite_model import FieldCompositeModel
    from vsc.model.constraint_override_model import ConstraintOverrideModel
    from vsc.model.constraint_scope_model import ConstraintScopeModel
    from vsc.model.constraint_if_else_model import ConstraintIfElseModel
    out = []
    seen = set()

    def walk_c(c, where):
        if c is None or id(c) in seen:
            return
        seen.add(id(c))
        if isinstance(c, ConstraintOverrideModel):
            out.append("override@" + where)
            return
        if getattr(c, "node", None) is not None:
            out.append("node@" + where)
        if isinstance(c, ConstraintScopeModel):
            for cc in c.constraint_l:
                walk_c(cc, where)
        if isinstance(c, ConstraintIfElseModel):
            walk_c(c.true_c, where)
            walk_c(c.false_c, where)

    def walk_f(m, pfx):
        if id(m) in seen:
            return
        seen.add(id(m))
        name = pfx + str(m.name)
        if isinstance(m, FieldCompositeModel):
            if hasattr(m, "size") and getattr(m.size, "var", None) is not None:
                out.append("var@" + name + ".size")
            for attr in ("sum_expr_btor", "product_expr_btor"):
                if getattr(m, attr, None) is not None:
                    out.append(attr + "@" + name)
            for f in m.field_l:
                walk_f(f, name + ".")
            for c in m.constraint_model_l:
                walk_c(c, name + "." + str(getattr(c, "name", "?")))
            for c in m.constraint_dynamic_model_l:
                walk_c(c, name + "." + str(getattr(c, "name", "?")))
        else:
            if getattr(m, "var", None) is not None:
                out.append("var@" + name)
    try:
        model = obj.get_model()
    except Exception as e:
        return ["get_model raised " + type(e).__name__]
    walk_f(model, "")
    return out

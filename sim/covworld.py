"""Coverage world: generated covergroup classes (through the public DSL), live
covergroup instances as parties, a set-based reference model of bins / crosses
/ type aggregation / coverage arithmetic, and state digests.

Covergroup program vocabulary (JSON):
  {"enums":[...], "cgs":[{"name","samples":[{"n","w","s"} | {"n","en"}],
     "variants":[ {"cps":[cp...], "crosses":[cr...]} ... ],      # ctor parameter selects a variant
     "options":{...}}]}
  cp = {"n", "target":{"var":n} | {"fn":n}, "bins":{name:spec}|null, "ignore":{name:items}|null,
        "illegal":{name:items}|null, "iff":null|{"var":n}|{"fn":n}, "options":{at_least,weight,auto_bin_max}}
  spec = {"k":"bin","items":[v|[lo,hi]...]} | {"k":"array","n":int|null,"items":[...]}
  cr = {"n","cps":[names],"iff":..., "options":{...}}
"""
import enum

import vsc

from . import kernel


# ---------------------------------------------------------------------------
# reference model (pure Python)
# ---------------------------------------------------------------------------
def items_values(items):
    out = set()
    for it in items:
        if isinstance(it, (list, tuple)):
            out.update(range(it[0], it[1] + 1))
        else:
            out.add(it)
    return out


def type_values(s):
    if "en" in s:
        return None
    w, sg = s["w"], s.get("s", False)
    if sg:
        return list(range(-(1 << (w - 1)), 1 << (w - 1)))
    return list(range(0, 1 << w))


def chunk(vals, n):
    """n consecutive equal-size bins, the remainder in the last one; one bin
    per value when n is None or n >= len(vals)"""
    vals = sorted(vals)
    if n is None or n >= len(vals):
        return [[v] for v in vals]
    per = len(vals) // n
    out = []
    for i in range(n):
        if i + 1 < n:
            out.append(vals[i * per:(i + 1) * per])
        else:
            out.append(vals[i * per:])
    return out


class RefCp(object):
    def __init__(self, cpdef, sample_defs, enums, cg_options):
        self.d = cpdef
        self.name = cpdef["n"]
        opts = dict(cg_options or {})
        opts.update(cpdef.get("options") or {})
        self.at_least = opts.get("at_least", 1)
        self.weight = opts.get("weight", 1)
        abm = opts.get("auto_bin_max", 64)
        tgt = cpdef["target"]
        sname = tgt.get("var") or tgt.get("fn")
        sdef = [s for s in sample_defs if s["n"] == sname][0]
        excl = set()
        self.ignore = []     # (name, set)
        self.illegal = []
        for nm, items in (cpdef.get("ignore") or {}).items():
            vs = items_values(items)
            excl |= vs
            self.ignore.append((nm, vs))
        for nm, items in (cpdef.get("illegal") or {}).items():
            vs = items_values(items)
            excl |= vs
            self.illegal.append((nm, vs))
        self.bins = []       # ordered list of value sets
        if cpdef.get("bins"):
            for nm, spec in cpdef["bins"].items():
                vs = items_values(spec["items"]) - excl
                if spec["k"] == "bin":
                    if vs:
                        self.bins.append(set(vs))
                else:
                    for c in chunk(vs, spec.get("n")):
                        self.bins.append(set(c))
        elif "en" in sdef:
            e = [x for x in enums if x["name"] == sdef["en"]][0]
            for v in sorted(v for (_, v) in e["items"]):
                if v not in excl:
                    self.bins.append({v})
        else:
            vs = set(type_values(sdef)) - excl
            for c in chunk(vs, abm):
                self.bins.append(set(c))
        self.hits = [0] * len(self.bins)
        self.ign_hits = [0] * len(self.ignore)
        self.ill_hits = [0] * len(self.illegal)

    def clone_empty(self):
        import copy
        c = copy.copy(self)
        c.hits = [0] * len(self.bins)
        c.ign_hits = [0] * len(self.ignore)
        c.ill_hits = [0] * len(self.illegal)
        return c

    def sample(self, v, gate):
        """returns list of regular bin indices hit (empty if gated / outside)"""
        if not gate:
            return None
        hit = []
        for i, b in enumerate(self.bins):
            if v in b:
                self.hits[i] += 1
                hit.append(i)
        for i, (_, s) in enumerate(self.ignore):
            if v in s:
                self.ign_hits[i] += 1
        for i, (_, s) in enumerate(self.illegal):
            if v in s:
                self.ill_hits[i] += 1
        return hit

    def coverage(self):
        if not self.bins:
            return None
        return 100.0 * len([h for h in self.hits if h >= self.at_least]) / len(self.bins)


class RefCross(object):
    def __init__(self, crdef, cps, cg_options):
        self.d = crdef
        self.name = crdef["n"]
        self.cps = [cps[n] for n in crdef["cps"]]
        opts = dict(cg_options or {})
        opts.update(crdef.get("options") or {})
        self.at_least = opts.get("at_least", 1)
        self.weight = opts.get("weight", 1)
        self.tuples = []
        dims = [len(c.bins) for c in self.cps]

        def rec(i, key):
            if i == len(dims):
                self.tuples.append(tuple(key))
                return
            for k in range(dims[i]):
                rec(i + 1, key + [k])
        rec(0, [])
        self.index = {t: i for i, t in enumerate(self.tuples)}
        self.hits = [0] * len(self.tuples)

    def clone_empty(self, cps):
        import copy
        c = copy.copy(self)
        c.cps = [cps[n] for n in self.d["cps"]]
        c.hits = [0] * len(self.tuples)
        return c

    def sample(self, gate, cp_hits):
        """cp_hits: {cp name: list of hit bin indices or None when gated off}"""
        if not gate:
            return None
        key = []
        for c in self.cps:
            h = cp_hits.get(c.name)
            if not h:
                return None
            key.append(h[0])
        i = self.index[tuple(key)]
        self.hits[i] += 1
        return i

    def coverage(self):
        if not self.tuples:
            return None
        return 100.0 * len([h for h in self.hits if h >= self.at_least]) / len(self.tuples)


class RefCg(object):
    """reference for one covergroup instance or one type (same structure)"""

    def __init__(self, cgdef, variant, enums):
        self.cgdef = cgdef
        self.variant = variant
        v = cgdef["variants"][variant]
        self.cps = {}
        self.cp_order = []
        for cp in v["cps"]:
            self.cps[cp["n"]] = RefCp(cp, cgdef["samples"], enums, cgdef.get("options"))
            self.cp_order.append(cp["n"])
        self.crosses = []
        for cr in v.get("crosses", []):
            self.crosses.append(RefCross(cr, self.cps, cgdef.get("options")))

    def clone_empty(self):
        import copy
        c = copy.copy(self)
        c.cps = {n: cp.clone_empty() for n, cp in self.cps.items()}
        c.crosses = [cr.clone_empty(c.cps) for cr in self.crosses]
        return c

    def sample(self, values):
        """values: {sample name: int}; gates read from values too"""
        cp_hits = {}
        for n in self.cp_order:
            cp = self.cps[n]
            tgt = cp.d["target"]
            v = values[tgt.get("var") or tgt.get("fn")]
            gate = gate_value(cp.d.get("iff"), values)
            cp_hits[n] = cp.sample(v, gate)
        for cr in self.crosses:
            cr.sample(gate_value(cr.d.get("iff"), values), cp_hits)

    def coverage(self):
        tot, wsum = 0.0, 0.0
        items = [self.cps[n] for n in self.cp_order] + self.crosses
        if not items:
            return 100.0
        for it in items:
            c = it.coverage()
            if c is None:
                continue
            tot += c * it.weight
            wsum += it.weight
        return tot / wsum if wsum else 0.0

    def snapshot(self):
        return {"cps": {n: {"hits": list(c.hits), "ign": list(c.ign_hits), "ill": list(c.ill_hits)}
                        for n, c in self.cps.items()},
                "crosses": {c.name: list(c.hits) for c in self.crosses}}


def gate_value(iff, values):
    if iff is None:
        return True
    return bool(values[iff.get("var") or iff.get("fn")])


def shape_key(cgdef, variant, enums=()):
    """instances of one class form one type iff they have the same set of bins
    (the resulting bins, however they were specified)"""
    r = RefCg(cgdef, variant, list(enums))
    return kernel.digest([[(n, [sorted(b) for b in r.cps[n].bins],
                            [(a, sorted(v)) for (a, v) in r.cps[n].ignore],
                            [(a, sorted(v)) for (a, v) in r.cps[n].illegal]) for n in r.cp_order],
                          [(c.name, c.d["cps"]) for c in r.crosses]])


# ---------------------------------------------------------------------------
# building real covergroup classes
# ---------------------------------------------------------------------------
class CovFault(Exception):
    """raised by generated coverpoint callables when a fault is armed"""


class CovEnv(object):
    def __init__(self, prog, tag=""):
        self.prog = prog
        self.tag = tag
        self.state = {}          # values read by callable targets / iff callables
        self.enums = {}
        self.fn_calls = 0
        self.shared_specs = {}
        self.raise_in = None
        for e in prog.get("enums", []):
            self.enums[e["name"]] = enum.IntEnum(e["name"] + tag, [(n, v) for (n, v) in e["items"]])
        self.classes = {}
        for cg in prog["cgs"]:
            self.classes[cg["name"]] = self._make(cg)

    def _items(self, items, tuples=False):
        out = []
        for it in items:
            if isinstance(it, (list, tuple)):
                out.append((it[0], it[1]) if tuples else [it[0], it[1]])
            else:
                out.append(it)
        return out

    def _spec(self, spec):
        if spec["k"] == "bin":
            return vsc.bin(*self._items(spec["items"]))
        n = spec.get("n")
        return vsc.bin_array([] if n is None else n, *self._items(spec["items"]))

    def _make(self, cg):
        env = self

        def __init__(self, variant=0):
            params = {}
            for s in cg["samples"]:
                if "en" in s:
                    params[s["n"]] = vsc.enum_t(env.enums[s["en"]])
                elif s.get("s"):
                    params[s["n"]] = vsc.int_t(s["w"])
                else:
                    params[s["n"]] = vsc.bit_t(s["w"])
            self.with_sample(params)
            for k, v in (cg.get("options") or {}).items():
                setattr(self.options, k, v)
            var = cg["variants"][variant]
            for cp in var["cps"]:
                kw = {}
                tgt = cp["target"]
                sdef = [s for s in cg["samples"] if s["n"] == (tgt.get("var") or tgt.get("fn"))][0]
                if "var" in tgt:
                    target = getattr(self, tgt["var"])
                else:
                    name = tgt["fn"]

                    def target(name=name):
                        env.fn_calls += 1
                        if env.raise_in == name:
                            env.raise_in = None
                            raise CovFault("injected in coverpoint target " + name)
                        return env.state[name]
                    if "en" in sdef:
                        kw["cp_t"] = vsc.enum_t(env.enums[sdef["en"]])
                    else:
                        kw["cp_t"] = vsc.int_t(sdef["w"]) if sdef.get("s") else vsc.bit_t(sdef["w"])
                if cp.get("bins"):
                    if cp.get("share"):
                        # one dict of bin objects declared once (module level) and used by
                        # several coverpoints / instances
                        key = (cg["name"], variant, cp["share"])
                        if key not in env.shared_specs:
                            env.shared_specs[key] = {n: env._spec(s) for n, s in cp["bins"].items()}
                        kw["bins"] = env.shared_specs[key]
                    else:
                        kw["bins"] = {n: env._spec(s) for n, s in cp["bins"].items()}
                if cp.get("ignore"):
                    kw["ignore_bins"] = {n: vsc.bin(*env._items(it, True)) for n, it in cp["ignore"].items()}
                if cp.get("illegal"):
                    kw["illegal_bins"] = {n: vsc.bin(*env._items(it, True)) for n, it in cp["illegal"].items()}
                if cp.get("iff"):
                    kw["iff"] = env._iff(self, cp["iff"])
                if cp.get("options"):
                    kw["options"] = dict(cp["options"])
                setattr(self, cp["n"], vsc.coverpoint(target, **kw))
            for cr in var.get("crosses", []):
                kw = {}
                if cr.get("iff"):
                    kw["iff"] = env._iff(self, cr["iff"])
                if cr.get("options"):
                    kw["options"] = dict(cr["options"])
                setattr(self, cr["n"], vsc.cross([getattr(self, n) for n in cr["cps"]], **kw))
        T = type(cg["name"] + self.tag, (object,), {"__init__": __init__})
        return vsc.covergroup(T)

    def _iff(self, obj, iff):
        if "var" in iff:
            return getattr(obj, iff["var"])
        name = iff["fn"]

        def f(name=name):
            self.fn_calls += 1
            if self.raise_in == "iff:" + name:
                self.raise_in = None
                raise CovFault("injected in iff callable " + name)
            return self.state[name]
        return f

    def sample(self, cgdef, inst, values):
        """values: {sample name: int}"""
        args = []
        for s in cgdef["samples"]:
            v = values[s["n"]]
            self.state[s["n"]] = v
            if "en" in s:
                args.append(self.enums[s["en"]](v))
            else:
                args.append(v)
        inst.sample(*args)


# ---------------------------------------------------------------------------
# reading the implementation's state
# ---------------------------------------------------------------------------
def read_model(m):
    """structure + counters of a CovergroupModel (instance or type)"""
    out = {"name": m.name, "cps": {}, "cp_order": [], "crosses": {}, "cross_order": []}
    for cp in m.coverpoint_l:
        out["cp_order"].append(cp.name)
        out["cps"][cp.name] = {
            "names": [cp.get_bin_name(i) for i in range(cp.get_n_bins())],
            "hits": [cp.get_bin_hits(i) for i in range(cp.get_n_bins())],
            "ign_names": [cp.get_ignore_bin_name(i) for i in range(cp.get_n_ignore_bins())],
            "ign": [cp.get_ignore_bin_hits(i) for i in range(cp.get_n_ignore_bins())],
            "ill_names": [cp.get_illegal_bin_name(i) for i in range(cp.get_n_illegal_bins())],
            "ill": [cp.get_illegal_bin_hits(i) for i in range(cp.get_n_illegal_bins())]}
    for cr in m.cross_l:
        out["cross_order"].append(cr.name)
        out["crosses"][cr.name] = {
            "names": [cr.get_bin_name(i) for i in range(cr.get_n_bins())],
            "hits": [cr.get_bin_hits(i) for i in range(cr.get_n_bins())]}
    return out


def full_digest():
    """digest of everything coverage-related the library holds (all hit lists,
    caches, unhit sets, registry content)"""
    from vsc.impl.coverage_registry import CoverageRegistry
    rgy = CoverageRegistry.inst()
    doc = []
    for tname in sorted(rgy.covergroup_type_m.keys()):
        for t in rgy.covergroup_type_m[tname]:
            doc.append(_cg_state(t))
            for inst in t.cg_inst_l:
                doc.append(_cg_state(inst))
    return kernel.digest(doc)


def _cg_state(m):
    # (the memoised percentage and its validity flag are a cache of a pure
    # function of the hit lists, not coverage state: a report may fill it)
    d = {"name": m.name, "cps": [], "crs": []}
    for cp in m.coverpoint_l:
        d["cps"].append([cp.name, list(cp.hit_l), list(cp.hit_ignore_l), list(cp.hit_illegal_l),
                         sorted(cp.unhit_s), bool(cp.iff_val_cache_valid), bool(cp.target_val_cache_valid)])
    for cr in m.cross_l:
        d["crs"].append([cr.name, list(cr.hit_l), sorted(cr.unhit_s), bool(cr.iff_val_cache_valid)])
    return d

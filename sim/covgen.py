"""Generator of covergroup programs (see covworld.py for the vocabulary)."""


def dom(s):
    if "en" in s:
        return None
    w, sg = s["w"], s.get("s", False)
    return (-(1 << (w - 1)), (1 << (w - 1)) - 1) if sg else (0, (1 << w) - 1)


def disjoint_items(rng, lo, hi, n, avoid=()):
    """n values / ranges inside lo..hi, pairwise disjoint (may be adjacent),
    returned in random (unordered) order; none touches a value in avoid"""
    free = [v for v in range(lo, hi + 1) if v not in avoid]
    out = []
    tries = 0
    used = set()
    while len(out) < n and tries < 50 and free:
        tries += 1
        a = rng.choice(free)
        if a in used:
            continue
        if rng.random() < 0.5:
            b = a + rng.randint(1, max(1, (hi - lo) // 3))
            b = min(b, hi)
            span = range(a, b + 1)
            if any(v in used or v in avoid for v in span):
                continue
            if b == a:
                out.append(a)
            else:
                out.append([a, b])
            used.update(span)
        else:
            out.append(a)
            used.add(a)
    rng.shuffle(out)
    return out, used


def gen_cp(rng, name, s, enums, feats, disjoint_bins=False):
    cp = {"n": name, "target": {"var": s["n"]}, "bins": None, "ignore": None, "illegal": None,
          "iff": None, "options": None}
    if feats.get("fn_target") and rng.random() < 0.25:
        cp["target"] = {"fn": s["n"]}
    if "en" in s:
        e = [x for x in enums if x["name"] == s["en"]][0]
        vals = sorted(v for (_, v) in e["items"])
        if feats.get("ignore") and len(vals) > 2 and rng.random() < 0.4:
            cp["ignore"] = {"ig0": [rng.choice(vals)]}
        return cp
    lo, hi = dom(s)
    excl = set()
    if feats.get("ignore") and rng.random() < 0.5:
        k = rng.choice(["ignore", "ignore", "illegal", "both"])
        n_ex = rng.randint(1, 4)
        items, used = disjoint_items(rng, lo, hi, n_ex)
        if k == "both" and len(items) >= 2:
            cut = rng.randint(1, len(items) - 1)
            a, b = items[:cut], items[cut:]
        elif k == "illegal":
            a, b = [], items
        else:
            a, b = items, []
        if a:
            if len(a) >= 2 and rng.random() < 0.4:
                cp["ignore"] = {"ig0": a[:1], "ig1": a[1:]}
            else:
                cp["ignore"] = {"ig0": a}
            excl |= set(_vals(a))
        if b:
            cp["illegal"] = {"il0": b}
            excl |= set(_vals(b))
        if len(excl) > (hi - lo + 1) - 2:
            # keep at least two values of the type: a coverpoint without any bin
            # has no defined coverage (the library divides by zero)
            cp["ignore"], cp["illegal"], excl = None, None, set()
    r = rng.random()
    if r < 0.25:
        # auto bins
        if rng.random() < 0.6:
            cp["options"] = {"auto_bin_max": rng.choice([2, 3, 4, 5, 8, 16])}
        return cp
    bins = {}
    taken = set()
    nb = rng.randint(1, 3)
    for i in range(nb):
        kind = rng.choice(["bin", "array", "array_n"])
        n_items = rng.randint(1, 3)
        items, used = disjoint_items(rng, lo, hi, n_items, avoid=taken if disjoint_bins else ())
        if not items:
            continue
        if set(_vals(items)) <= excl:
            continue
        if disjoint_bins:
            taken |= used
        if kind == "bin":
            bins["b%d" % i] = {"k": "bin", "items": items}
        elif kind == "array":
            bins["b%d" % i] = {"k": "array", "n": None, "items": items}
        else:
            nv = len(set(_vals(items)) - excl)
            bins["b%d" % i] = {"k": "array", "n": rng.randint(1, max(1, nv + 1)), "items": items}
    cp["bins"] = bins or None
    if not bins and rng.random() < 0.5:
        cp["options"] = {"auto_bin_max": rng.choice([2, 4, 8])}
    return cp


def _vals(items):
    out = []
    for it in items:
        if isinstance(it, list):
            out.extend(range(it[0], it[1] + 1))
        else:
            out.append(it)
    return out


def gen_cg(rng, name, enums, feats):
    n_s = rng.randint(1, 3)
    samples = []
    for i in range(n_s):
        if enums and rng.random() < 0.2:
            samples.append({"n": "e%d" % i, "en": rng.choice(enums)["name"]})
        else:
            samples.append({"n": "v%d" % i, "w": rng.choice([2, 3, 4, 4, 5]),
                            "s": rng.random() < 0.25})
    gates = []
    if feats.get("iff"):
        for i in range(rng.randint(1, 2)):
            samples.append({"n": "g%d" % i, "w": 1, "s": False, "gate": True})
            gates.append("g%d" % i)
    n_var = rng.choice([1, 1, 2]) if feats.get("variants") else 1
    variants = []
    data = [s for s in samples if not s.get("gate")]
    for v in range(n_var):
        cps = []
        want_cross = feats.get("cross") and len(data) >= 1
        for i, s in enumerate(data):
            cp = gen_cp(rng, "cp%d" % i, s, enums, feats, disjoint_bins=bool(want_cross))
            if gates and rng.random() < 0.5:
                g = rng.choice(gates)
                cp["iff"] = {"var": g} if rng.random() < 0.6 or not feats.get("fn_target") else {"fn": g}
            if feats.get("opts") and rng.random() < 0.4:
                o = dict(cp["options"] or {})
                if rng.random() < 0.6:
                    o["at_least"] = rng.choice([1, 2, 3])
                if rng.random() < 0.6:
                    o["weight"] = rng.choice([1, 2, 3, 5])
                cp["options"] = o
            cps.append(cp)
        if feats.get("share") and rng.random() < 0.35:
            # two coverpoints (and all instances) use one shared dict of bin objects
            owners = [c for c in cps if c.get("bins") and "en" not in
                      [s_ for s_ in data if s_["n"] == (c["target"].get("var") or c["target"].get("fn"))][0]]
            if owners:
                o = rng.choice(owners)
                o["share"] = o["n"]
                s_o = [s_ for s_ in data if s_["n"] == (o["target"].get("var") or o["target"].get("fn"))][0]
                c2 = gen_cp(rng, "cp%d" % len(cps), s_o, enums, dict(feats, fn_target=False),
                            disjoint_bins=bool(want_cross))
                import copy as _copy
                c2["bins"] = _copy.deepcopy(o["bins"])
                c2["share"] = o["n"]
                c2["options"] = None
                ex2 = set()
                for d_ in (c2.get("ignore") or {}, c2.get("illegal") or {}):
                    for it_ in d_.values():
                        ex2 |= set(_vals(it_))
                allv = set()
                for sp_ in c2["bins"].values():
                    allv |= set(_vals(sp_["items"]))
                if allv <= ex2:
                    c2["ignore"], c2["illegal"] = None, None
                cps.append(c2)
        if len(data) < 2 and rng.random() < 0.5:
            # a second coverpoint on the same variable
            cp = gen_cp(rng, "cp%d" % len(cps), data[0], enums, feats, disjoint_bins=bool(want_cross))
            cps.append(cp)
        crosses = []
        if want_cross and len(cps) >= 2 and rng.random() < 0.8:
            k = rng.choice([2, 2, 3]) if len(cps) >= 3 else 2
            sel = rng.sample([c["n"] for c in cps], k)
            cr = {"n": "x0", "cps": sel, "iff": None, "options": None}
            if gates and rng.random() < 0.4:
                cr["iff"] = {"var": rng.choice(gates)}
            if feats.get("opts") and rng.random() < 0.4:
                cr["options"] = {"at_least": rng.choice([1, 2]), "weight": rng.choice([1, 2, 4])}
            crosses.append(cr)
        variants.append({"cps": cps, "crosses": crosses})
        if n_var > 1 and rng.random() < 0.65:
            # remaining variants: small perturbations of the first one (same names, nearly the
            # same bins) - the cases in which "same shape?" is hardest to decide
            while len(variants) < n_var:
                variants.append(perturb_variant(rng, variants[0], data))
            break
    cg = {"name": name, "samples": samples, "variants": variants, "options": None}
    if feats.get("opts") and rng.random() < 0.3:
        cg["options"] = {"at_least": rng.choice([1, 2])}
    return cg


def gen_program(rng, feats, n_cg=1):
    enums = []
    if feats.get("enums"):
        k = rng.randint(2, 4)
        vals = sorted(rng.sample(range(0, 9), k))
        enums.append({"name": "CE0", "items": [["I%d" % j, v] for j, v in enumerate(vals)]})
    return {"enums": enums, "cgs": [gen_cg(rng, "CG%d" % i, enums, feats) for i in range(n_cg)]}


def sample_values(rng, cgdef, enums, bias=None):
    vals = {}
    for s in cgdef["samples"]:
        if "en" in s:
            e = [x for x in enums if x["name"] == s["en"]][0]
            vals[s["n"]] = rng.choice([v for (_, v) in e["items"]])
        elif s.get("gate"):
            vals[s["n"]] = 1 if rng.random() < 0.65 else 0
        else:
            lo, hi = dom(s)
            vals[s["n"]] = rng.randint(lo, hi)
    return vals


def perturb_variant(rng, var, data):
    import copy
    v = copy.deepcopy(var)
    by = {s["n"]: s for s in data}
    for _ in range(rng.randint(1, 2)):
        cp = rng.choice(v["cps"])
        s = by.get(cp["target"].get("var") or cp["target"].get("fn"))
        if s is None or "en" in s:
            continue
        lo, hi = dom(s)
        r = rng.random()
        if cp.get("bins") and r < 0.6:
            spec = cp["bins"][rng.choice(sorted(cp["bins"]))]
            k = rng.randrange(len(spec["items"]))
            it = spec["items"][k]
            taken = set(_vals([x for j, x in enumerate(spec["items"]) if j != k]))
            if isinstance(it, list):
                a, b = it
                choice = rng.choice(["widen_hi", "widen_lo", "narrow", "shift"])
                if choice == "widen_hi":
                    b = min(hi, b + rng.randint(1, 2))
                elif choice == "widen_lo":
                    a = max(lo, a - rng.randint(1, 2))
                elif choice == "narrow" and b - a >= 1:
                    b = b - 1
                else:
                    a, b = min(hi, a + 1), min(hi, b + 1)
                if a <= b and not (set(range(a, b + 1)) & taken):
                    spec["items"][k] = [a, b] if a != b else a
            else:
                nv = max(lo, min(hi, it + rng.choice([-1, 1])))
                if nv not in taken:
                    spec["items"][k] = nv if rng.random() < 0.5 else ([min(it, nv), max(it, nv)] if it != nv else it)
        elif cp.get("bins") and r < 0.8:
            spec = cp["bins"][rng.choice(sorted(cp["bins"]))]
            if spec["k"] == "array":
                spec["n"] = rng.choice([None, 1, 2, 3])
        elif not cp.get("bins"):
            o = dict(cp.get("options") or {})
            o["auto_bin_max"] = rng.choice([2, 3, 4, 8, 64])
            cp["options"] = o
        else:
            o = dict(cp.get("options") or {})
            o["at_least"] = rng.choice([1, 2])
            cp["options"] = o
    for cp in v["cps"]:
        # same gate as gen_cp: a coverpoint whose every bin value is ignored/illegal has
        # no bins at all and no defined coverage (the library divides by zero)
        if cp.get("bins"):
            ex = set()
            for d_ in (cp.get("ignore") or {}, cp.get("illegal") or {}):
                for it_ in d_.values():
                    ex |= set(_vals(it_))
            allv = set()
            for sp_ in cp["bins"].values():
                allv |= set(_vals(sp_["items"]))
            if allv <= ex:
                return copy.deepcopy(var)
    return v

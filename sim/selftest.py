"""Determinism self-test: the same run seeds are executed twice, at two worker
counts and under different PYTHONHASHSEEDs (fresh interpreters); the per-run
digests (op outcomes + observations) must be pairwise equal.  Sensitivity is
tested separately by bin/mutants (DESIGN section 9)."""
import glob
import os
import sys

from . import runner


def props_available():
    out = []
    for p in sorted(glob.glob(os.path.join(runner.VERIF, "sim", "props", "c[0-9][0-9].py"))):
        out.append(os.path.basename(p)[:-3].upper())
    return out


def main(smoke=False, seed=1, only=None):
    n = 16 if smoke else 200
    bad = 0
    for pid in (only or props_available()):
        mod = runner.load(pid)
        if getattr(mod, "SELFTEST_SKIP", False):
            continue
        tier = "quick"
        os.environ.pop("VERIF_HASHSEED_SHIFT", None)
        a, _ = runner.run_batch(pid, tier, 9000 + seed, n, 600, nproc=16)
        os.environ["VERIF_HASHSEED_SHIFT"] = "3"
        b, _ = runner.run_batch(pid, tier, 9000 + seed, n, 600, nproc=3 if not smoke else 8)
        os.environ.pop("VERIF_HASHSEED_SHIFT", None)
        errs = [r for r in a + b if r.get("err")]
        if errs:
            print("SELFTEST %s: harness error: %s" % (pid, str(errs[0]["err"])[:800]))
            bad += 1
            continue
        diff = [(x["i"], x["seed"]) for x, y in zip(a, b)
                if x.get("digest") != y.get("digest") or
                [v.get("inv") for v in x.get("viol", [])] != [v.get("inv") for v in y.get("viol", [])]]
        if diff:
            print("SELFTEST %s: NONDETERMINISTIC runs %s" % (pid, diff[:5]))
            bad += 1
        else:
            print("SELFTEST %s: %d runs x 2 executions (16 vs %d workers, shifted PYTHONHASHSEED): digests equal" % (
                pid, n, 3 if not smoke else 8))
        sys.stdout.flush()
    # the guarded hook only observes: with the guard off the same runs give the same digests
    if only is None or "C01" in only:
        a, _ = runner.run_batch("C01", "quick", 9100 + seed, n, 600, nproc=16)
        b, _ = runner.run_batch("C01", "quick", 9100 + seed, n, 600, nproc=16,
                                extra_env={runner.GUARD: "0"})
        diff = [(x["i"], x["seed"]) for x, y in zip(a, b) if x.get("digest") != y.get("digest") or x.get("err") or y.get("err")]
        if diff:
            print("SELFTEST hook guard: digests differ with %s=0: %s" % (runner.GUARD, diff[:5]))
            bad += 1
        else:
            print("SELFTEST hook guard: %d C01 runs with %s=1 and =0: digests equal" % (n, runner.GUARD))
    return 2 if bad else 0
